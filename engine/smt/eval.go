package smt

import "fmt"

// Eval evaluates a quantifier-free, array-free term under an assignment of variables
// (used to cross-check the simplifier and to evaluate goals on concrete models).
func Eval(t *Term, env map[string]uint64) uint64 {
	memo := map[int]uint64{}
	var ev func(t *Term) uint64
	ev = func(t *Term) uint64 {
		if v, ok := memo[t.id]; ok {
			return v
		}
		var r uint64
		w := t.S.W
		a := func(i int) uint64 { return ev(t.Args[i]) }
		b2u := func(b bool) uint64 {
			if b {
				return 1
			}
			return 0
		}
		switch t.Op {
		case "true":
			r = 1
		case "false":
			r = 0
		case "const":
			r = t.V
		case "var":
			v, ok := env[t.Name]
			if !ok {
				panic("eval: unbound " + t.Name)
			}
			r = v
			if t.S.Kind == KBV {
				r &= mask(w)
			}
		case "not":
			r = 1 - a(0)
		case "and":
			r = 1
			for i := range t.Args {
				if a(i) == 0 {
					r = 0
				}
			}
		case "or":
			r = 0
			for i := range t.Args {
				if a(i) == 1 {
					r = 1
				}
			}
		case "ite":
			if a(0) == 1 {
				r = a(1)
			} else {
				r = a(2)
			}
		case "=":
			r = b2u(a(0) == a(1))
		case "bvadd", "bvsub", "bvmul", "bvand", "bvor", "bvxor", "bvshl", "bvlshr", "bvashr", "bvudiv", "bvurem", "bvsdiv", "bvsrem":
			v, ok := foldBV(t.Op, a(0), a(1), w)
			if !ok {
				v = 0
			}
			r = v
		case "bvnot":
			r = ^a(0) & mask(w)
		case "bvneg":
			r = -a(0) & mask(w)
		case "bvult":
			r = b2u(a(0) < a(1))
		case "bvule":
			r = b2u(a(0) <= a(1))
		case "bvslt":
			r = b2u(sext(a(0), t.Args[0].S.W) < sext(a(1), t.Args[0].S.W))
		case "bvsle":
			r = b2u(sext(a(0), t.Args[0].S.W) <= sext(a(1), t.Args[0].S.W))
		case "extract":
			r = (a(0) >> uint(t.I2)) & mask(t.I1-t.I2+1)
		case "zero_extend":
			r = a(0)
		case "sign_extend":
			r = uint64(sext(a(0), t.Args[0].S.W)) & mask(w)
		case "concat":
			r = a(0)<<uint(t.Args[1].S.W) | a(1)
		default:
			panic(fmt.Sprintf("eval: op %s", t.Op))
		}
		memo[t.id] = r
		return r
	}
	return ev(t)
}
