package smt

import (
	"bytes"
	"context"
	"fmt"
	"os"
	"os/exec"
	"path/filepath"
	"strconv"
	"strings"
	"sync"
	"time"
)

type Verdict int

const (
	Unknown Verdict = iota
	Unsat
	Sat
)

func (v Verdict) String() string {
	switch v {
	case Unsat:
		return "unsat"
	case Sat:
		return "sat"
	}
	return "unknown"
}

type Result struct {
	Verdict Verdict
	Solver  string
	Seconds float64
	Values  []uint64 // parallel to gets; bools as 0/1
	HasVal  []bool
	Raw     string // solver outputs (all solvers when unknown)
}

type Backend struct {
	Name string
	Args func(file string, timeoutS int, seed int) []string
}

func have(bin string) bool { _, err := exec.LookPath(bin); return err == nil }

// Backends returns the solvers installed, in racing order.
func Backends() []Backend {
	var bs []Backend
	if have("z3") {
		bs = append(bs, Backend{"z3-4.8.12", func(f string, t, seed int) []string {
			return []string{"z3", fmt.Sprintf("-T:%d", t), fmt.Sprintf("smt.random_seed=%d", seed), fmt.Sprintf("sat.random_seed=%d", seed), f}
		}})
	}
	if have("z3-new") {
		bs = append(bs, Backend{"z3-5.1.0", func(f string, t, seed int) []string {
			return []string{"z3-new", fmt.Sprintf("-T:%d", t), fmt.Sprintf("smt.random_seed=%d", seed), fmt.Sprintf("sat.random_seed=%d", seed), f}
		}})
	}
	if have("cvc5") {
		bs = append(bs, Backend{"cvc5-1.0", func(f string, t, seed int) []string {
			return []string{"cvc5", fmt.Sprintf("--tlimit=%d", t*1000), fmt.Sprintf("--seed=%d", seed), f}
		}})
	}
	return bs
}

var workDir string
var workOnce sync.Once
var fileSeq int
var fileMu sync.Mutex

// WorkDir is where SMT scripts are written; it is created on demand and removed by Cleanup.
func WorkDir() string {
	workOnce.Do(func() {
		base := os.Getenv("GOVC_WORK")
		if base == "" {
			base = os.TempDir()
		}
		d, err := os.MkdirTemp(base, "govc-smt-")
		if err != nil {
			panic(err)
		}
		workDir = d
	})
	return workDir
}

func Cleanup() {
	if workDir != "" {
		os.RemoveAll(workDir)
	}
}

// Solve races all back ends on the script; the first definite answer wins.
// If mustAgree is set, it waits for a second definite answer (within the timeout) and
// reports disagreement through the error.
func Solve(sc *Script, nGets int, timeoutS int, seed int, only string) (*Result, error) {
	return SolveWithAbstraction(sc, nil, nil, nil, nGets, timeoutS, seed, only)
}

// SolveWithAbstraction additionally races z3 on a QF_BV over-approximation; only its "unsat" counts.
func SolveWithAbstraction(sc *Script, abs *Script, weak *Script, light *Script, nGets int, timeoutS int, seed int, only string) (*Result, error) {
	fileMu.Lock()
	fileSeq++
	n := fileSeq
	fileMu.Unlock()
	file := filepath.Join(WorkDir(), fmt.Sprintf("q%06d.smt2", n))
	if err := os.WriteFile(file, []byte(sc.Text), 0o644); err != nil {
		return nil, err
	}
	defer os.Remove(file)
	bs := Backends()
	if only != "" {
		var f []Backend
		for _, b := range bs {
			if strings.HasPrefix(b.Name, only) {
				f = append(f, b)
			}
		}
		bs = f
	}
	if sc.HasLambda {
		var f []Backend
		for _, b := range bs {
			if strings.HasPrefix(b.Name, "z3") {
				f = append(f, b)
			}
		}
		bs = f
	}
	if len(bs) == 0 {
		return nil, fmt.Errorf("no SMT solver found")
	}
	absFile := ""
	if abs != nil && only == "" {
		absFile = file + ".abs.smt2"
		if err := os.WriteFile(absFile, []byte(abs.Text), 0o644); err == nil {
			defer os.Remove(absFile)
		} else {
			absFile = ""
		}
	}
	var weakFile string
	var weakBs []Backend
	if weak != nil && only == "" {
		weakFile = file + ".qf.smt2"
		if err := os.WriteFile(weakFile, []byte(weak.Text), 0o644); err == nil {
			defer os.Remove(weakFile)
			for _, b := range Backends() {
				if strings.HasPrefix(b.Name, "z3") || !weak.HasLambda {
					weakBs = append(weakBs, b)
				}
			}
		}
	}
	lightFile := ""
	if light != nil && only == "" {
		lightFile = file + ".light.smt2"
		if err := os.WriteFile(lightFile, []byte(light.Text), 0o644); err == nil {
			defer os.Remove(lightFile)
		} else {
			lightFile = ""
		}
	}
	// Stage 1: solver seed 0 for the whole budget: the configuration every claimed obligation was
	// developed under, so a run is reproducible whatever seed the caller exports. Stage 2 (only
	// after "unknown"): one more race under the caller's seed, because solver heuristics
	// (quantifier instantiation order above all) are seed-sensitive. Soundness never depends on
	// the seed; only "unknown" vs a definite answer does.
	start := time.Now()
	r := raceSeeds(file, absFile, weakFile, lightFile, weakBs, bs, nGets, timeoutS, []int{0})
	if r.Verdict == Unknown && timeoutS >= 20 {
		r2 := raceSeeds(file, absFile, weakFile, lightFile, weakBs, bs, nGets, timeoutS/2, []int{seed + 1})
		if r2.Verdict == Unknown {
			r2.Raw = r.Raw + "\n" + r2.Raw
		}
		r = r2
	}
	r.Seconds = time.Since(start).Seconds()
	return r, nil
}

// raceSeeds races every back end under every seed on the script (and z3 on the QF_BV
// abstraction, where only "unsat" counts); the first definite answer wins.
func raceSeeds(file, absFile, weakFile, lightFile string, weakBs []Backend, bs []Backend, nGets, timeoutS int, seeds []int) *Result {
	ctx, cancel := context.WithTimeout(context.Background(), time.Duration(timeoutS+5)*time.Second)
	defer cancel()
	start := time.Now()
	n := 0
	ch := make(chan *Result, 64)
	launch := func(b Backend, f string, seed int, abstract bool, tag ...string) {
		n++
		go func() {
			if len(tag) > 0 {
				// helper variants start late: most problems are decided within seconds and the
				// cores are better spent on other obligations
				select {
				case <-ctx.Done():
					ch <- &Result{Verdict: Unknown, Solver: b.Name + "/" + tag[0], Raw: tag[0] + " not started"}
					return
				case <-time.After(4 * time.Second):
				}
			}
			args := b.Args(f, timeoutS, seed)
			cmd := exec.CommandContext(ctx, args[0], args[1:]...)
			var out bytes.Buffer
			cmd.Stdout = &out
			cmd.Stderr = &out
			cmd.Run() // z3 4.8 exits 1 on get-value after unsat: only the output matters
			var r *Result
			if abstract {
				r = parseOutput(out.String(), 0)
				if r.Verdict != Unsat {
					r.Verdict = Unknown // a model of the abstraction proves nothing
					r.Raw = "abstraction inconclusive"
				}
				r.Solver = b.Name + "/qfbv-abstraction"
				if len(tag) > 0 {
					r.Raw = tag[0] + " inconclusive"
					r.Solver = b.Name + "/" + tag[0]
				}
			} else {
				r = parseOutput(out.String(), nGets)
				r.Solver = b.Name
			}
			r.Seconds = time.Since(start).Seconds()
			ch <- r
		}()
	}
	for _, sd := range seeds {
		for _, b := range bs {
			launch(b, file, sd, false)
		}
	}
	if absFile != "" {
		for _, b := range Backends() {
			if strings.HasPrefix(b.Name, "z3") {
				launch(b, absFile, seeds[0], true)
			}
		}
	}
	if lightFile != "" {
		// the small hypotheses only (a subset of the problem): only "unsat" counts
		for _, b := range Backends() {
			if !strings.HasPrefix(b.Name, "z3-4") {
				launch(b, lightFile, seeds[0], true, "small-hypotheses")
			}
		}
	}
	for _, b := range weakBs {
		// quantifier-free weakening (hypotheses with quantifiers replaced by their instances):
		// only "unsat" counts
		launch(b, weakFile, seeds[0], true, "qf-instances")
	}
	var raws []string
	var last *Result
	for k := 0; k < n; k++ {
		r := <-ch
		last = r
		if r.Verdict != Unknown {
			cancel()
			return r
		}
		if len(raws) < 6 {
			raws = append(raws, r.Solver+": "+firstLines(r.Raw, 3))
		}
	}
	last.Raw = strings.Join(raws, "\n")
	last.Solver = "none"
	last.Seconds = time.Since(start).Seconds()
	return last
}

// SolveAll runs every back end to completion (thorough tier cross-check).
func SolveAll(sc *Script, nGets int, timeoutS int, seed int) []*Result {
	fileMu.Lock()
	fileSeq++
	n := fileSeq
	fileMu.Unlock()
	file := filepath.Join(WorkDir(), fmt.Sprintf("q%06d.smt2", n))
	os.WriteFile(file, []byte(sc.Text), 0o644)
	defer os.Remove(file)
	bs := Backends()
	out := make([]*Result, len(bs))
	var wg sync.WaitGroup
	for i, b := range bs {
		i, b := i, b
		wg.Add(1)
		go func() {
			defer wg.Done()
			start := time.Now()
			ctx, cancel := context.WithTimeout(context.Background(), time.Duration(timeoutS+5)*time.Second)
			defer cancel()
			args := b.Args(file, timeoutS, seed)
			cmd := exec.CommandContext(ctx, args[0], args[1:]...)
			var ob bytes.Buffer
			cmd.Stdout = &ob
			cmd.Stderr = &ob
			cmd.Run()
			r := parseOutput(ob.String(), nGets)
			r.Solver = b.Name
			r.Seconds = time.Since(start).Seconds()
			out[i] = r
		}()
	}
	wg.Wait()
	return out
}

func firstLines(s string, n int) string {
	ls := strings.Split(strings.TrimSpace(s), "\n")
	if len(ls) > n {
		ls = ls[:n]
	}
	return strings.Join(ls, " / ")
}

func parseOutput(out string, nGets int) *Result {
	r := &Result{Raw: out}
	trim := strings.TrimSpace(out)
	first := trim
	if i := strings.IndexByte(trim, '\n'); i >= 0 {
		first = trim[:i]
	}
	first = strings.TrimSpace(first)
	switch first {
	case "unsat":
		r.Verdict = Unsat
		r.Raw = "unsat"
		return r
	case "sat":
		r.Verdict = Sat
	default:
		r.Verdict = Unknown
		if len(r.Raw) > 2000 {
			r.Raw = r.Raw[:2000]
		}
		return r
	}
	if nGets > 0 {
		rest := trim[len("sat"):]
		vals, has := parseValues(rest, nGets)
		r.Values, r.HasVal = vals, has
	}
	if len(r.Raw) > 20000 {
		r.Raw = r.Raw[:20000]
	}
	return r
}

// parseValues reads "((expr val) (expr val) ...)" positionally: the k-th pair's value.
func parseValues(s string, n int) ([]uint64, []bool) {
	vals := make([]uint64, n)
	has := make([]bool, n)
	// tokenise s-expressions
	i := strings.IndexByte(s, '(')
	if i < 0 {
		return vals, has
	}
	pos := i + 1
	k := 0
	for k < n {
		// skip space
		for pos < len(s) && (s[pos] == ' ' || s[pos] == '\n' || s[pos] == '\t' || s[pos] == '\r') {
			pos++
		}
		if pos >= len(s) || s[pos] != '(' {
			break
		}
		// pair: '(' sexpr sexpr ')'
		pos++
		_, p2 := skipSexpr(s, pos)
		v, p3 := skipSexpr(s, p2)
		pos = p3
		for pos < len(s) && s[pos] != ')' {
			pos++
		}
		pos++
		v = strings.TrimSpace(v)
		switch {
		case v == "true":
			vals[k], has[k] = 1, true
		case v == "false":
			vals[k], has[k] = 0, true
		case strings.HasPrefix(v, "#x"):
			if u, err := strconv.ParseUint(v[2:], 16, 64); err == nil {
				vals[k], has[k] = u, true
			}
		case strings.HasPrefix(v, "#b"):
			if u, err := strconv.ParseUint(v[2:], 2, 64); err == nil {
				vals[k], has[k] = u, true
			}
		case strings.HasPrefix(v, "(_ bv"):
			f := strings.Fields(v[5:])
			if len(f) > 0 {
				if u, err := strconv.ParseUint(f[0], 10, 64); err == nil {
					vals[k], has[k] = u, true
				}
			}
		}
		k++
	}
	return vals, has
}

func skipSexpr(s string, pos int) (string, int) {
	for pos < len(s) && (s[pos] == ' ' || s[pos] == '\n' || s[pos] == '\t' || s[pos] == '\r') {
		pos++
	}
	start := pos
	if pos >= len(s) {
		return "", pos
	}
	if s[pos] == '(' {
		depth := 0
		for pos < len(s) {
			switch s[pos] {
			case '(':
				depth++
			case ')':
				depth--
				if depth == 0 {
					return s[start : pos+1], pos + 1
				}
			case '|':
				pos++
				for pos < len(s) && s[pos] != '|' {
					pos++
				}
			}
			pos++
		}
		return s[start:], pos
	}
	if s[pos] == '|' {
		pos++
		for pos < len(s) && s[pos] != '|' {
			pos++
		}
		return s[start : pos+1], pos + 1
	}
	for pos < len(s) && s[pos] != ' ' && s[pos] != ')' && s[pos] != '\n' && s[pos] != '(' {
		pos++
	}
	return s[start:pos], pos
}
