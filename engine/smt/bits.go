package smt

import (
	"math/bits"
	"sort"
)

// Maybe1 returns a mask of the bits of t (a bit-vector of width <= 64) that may be 1.
func (c *Ctx) Maybe1(t *Term) uint64 {
	if t.S.Kind != KBV {
		return 0
	}
	if t.kbSet {
		return t.kb
	}
	w := t.S.W
	m := mask(w)
	r := m
	below := func(v uint64) uint64 { // all bits up to the highest set bit of v
		if v == 0 {
			return 0
		}
		n := bits.Len64(v)
		if n >= 64 {
			return ^uint64(0)
		}
		return (uint64(1) << uint(n)) - 1
	}
	switch t.Op {
	case "const":
		r = t.V
	case "zero_extend":
		r = c.Maybe1(t.Args[0])
	case "concat":
		r = c.Maybe1(t.Args[0])<<uint(t.Args[1].S.W) | c.Maybe1(t.Args[1])
	case "extract":
		r = (c.Maybe1(t.Args[0]) >> uint(t.I2)) & m
	case "bvand":
		r = c.Maybe1(t.Args[0]) & c.Maybe1(t.Args[1])
	case "bvor", "bvxor":
		r = c.Maybe1(t.Args[0]) | c.Maybe1(t.Args[1])
	case "bvshl":
		if t.Args[1].IsConst() {
			k := t.Args[1].V
			if k >= uint64(w) {
				r = 0
			} else {
				r = (c.Maybe1(t.Args[0]) << k) & m
			}
		}
	case "bvlshr":
		if t.Args[1].IsConst() {
			k := t.Args[1].V
			if k >= uint64(w) {
				r = 0
			} else {
				r = c.Maybe1(t.Args[0]) >> k
			}
		} else {
			r = below(c.Maybe1(t.Args[0]))
		}
	case "bvadd":
		a, b := c.Maybe1(t.Args[0]), c.Maybe1(t.Args[1])
		s, carry := bits.Add64(a, b, 0)
		if carry == 0 && (w == 64 || s <= m) {
			r = below(s)
		}
	case "bvmul":
		a, b := c.Maybe1(t.Args[0]), c.Maybe1(t.Args[1])
		hi, lo := bits.Mul64(a, b)
		if hi == 0 && (w == 64 || lo <= m) {
			r = below(lo)
		}
	case "bvudiv":
		if t.Args[1].IsConst() && t.Args[1].V != 0 {
			r = below(c.Maybe1(t.Args[0]) / t.Args[1].V)
		}
	case "bvurem":
		if t.Args[1].IsConst() && t.Args[1].V != 0 {
			r = below(t.Args[1].V - 1)
			if a := below(c.Maybe1(t.Args[0])); a < r {
				r = a
			}
		}
	case "ite":
		r = c.Maybe1(t.Args[1]) | c.Maybe1(t.Args[2])
	}
	r &= m
	t.kb, t.kbSet = r, true
	return r
}

// acNormalize flattens a chain of the associative-commutative operator op and rebuilds it
// with operands sorted by id and constants folded, so that equal bit-field expressions
// written in different orders become the same term.
func (c *Ctx) acNormalize(op string, a, b *Term) *Term {
	w := a.S.W
	var leaves []*Term
	var cst uint64
	switch op {
	case "bvand":
		cst = mask(w)
	}
	var walk func(t *Term)
	walk = func(t *Term) {
		if t.Op == op {
			walk(t.Args[0])
			walk(t.Args[1])
			return
		}
		if t.IsConst() {
			switch op {
			case "bvor":
				cst |= t.V
			case "bvand":
				cst &= t.V
			case "bvxor":
				cst ^= t.V
			case "bvadd":
				cst = (cst + t.V) & mask(w)
			}
			return
		}
		leaves = append(leaves, t)
	}
	walk(a)
	walk(b)
	sort.Slice(leaves, func(i, j int) bool { return leaves[i].id < leaves[j].id })
	// idempotence / cancellation
	var out []*Term
	for i := 0; i < len(leaves); i++ {
		if i+1 < len(leaves) && leaves[i] == leaves[i+1] {
			switch op {
			case "bvor", "bvand":
				continue // x|x = x
			case "bvxor":
				i++ // x^x = 0
				continue
			}
		}
		out = append(out, leaves[i])
	}
	m := mask(w)
	switch op {
	case "bvor":
		if cst == m {
			return c.Const(m, w)
		}
	case "bvand":
		if cst == 0 {
			return c.Const(0, w)
		}
	}
	var acc *Term
	for _, t := range out {
		if acc == nil {
			acc = t
		} else {
			acc = c.mk(&Term{Op: op, S: a.S, Args: []*Term{acc, t}})
		}
	}
	unit := uint64(0)
	if op == "bvand" {
		unit = m
	}
	if acc == nil {
		return c.Const(cst, w)
	}
	if cst != unit {
		if op == "bvand" {
			// mask already implied by known bits?
			if c.Maybe1(acc)&^cst == 0 {
				return acc
			}
			if c.Maybe1(acc)&cst == 0 {
				return c.Const(0, w)
			}
		}
		acc = c.mk(&Term{Op: op, S: a.S, Args: []*Term{acc, c.Const(cst, w)}})
	}
	return acc
}

// linNormalize puts sums/differences into a canonical linear form  Σ coef·leaf + const
// (coefficients modulo 2^w), so that offset arithmetic such as  j - (s+d) + s  and  j - d
// become the same term.
func (c *Ctx) linNormalize(op string, a, b *Term) *Term {
	w := a.S.W
	m := mask(w)
	coefs := map[int]uint64{}
	leaves := map[int]*Term{}
	var cst uint64
	var walk func(t *Term, k uint64)
	walk = func(t *Term, k uint64) {
		switch {
		case t.IsConst():
			cst = (cst + k*t.V) & m
		case t.Op == "bvadd":
			walk(t.Args[0], k)
			walk(t.Args[1], k)
		case t.Op == "bvsub":
			walk(t.Args[0], k)
			walk(t.Args[1], (-k)&m)
		case t.Op == "bvneg":
			walk(t.Args[0], (-k)&m)
		// a constant factor is folded into the coefficient of an atomic factor only: k*(x-y) stays
		// one product whether it stands alone or inside a sum (one normal form for both)
		case t.Op == "bvmul" && t.Args[1].IsConst() && !isSum(t.Args[0]):
			walk(t.Args[0], (k*t.Args[1].V)&m)
		case t.Op == "bvmul" && t.Args[0].IsConst() && !isSum(t.Args[1]):
			walk(t.Args[1], (k*t.Args[0].V)&m)
		default:
			coefs[t.id] = (coefs[t.id] + k) & m
			leaves[t.id] = t
		}
	}
	walk(a, 1)
	if op == "bvsub" {
		walk(b, m) // -1
	} else {
		walk(b, 1)
	}
	var ids []int
	for id, k := range coefs {
		if k != 0 {
			ids = append(ids, id)
		}
	}
	sort.Ints(ids)
	var pos, neg []*Term
	for _, id := range ids {
		k := coefs[id]
		t := leaves[id]
		switch {
		case k == 1:
			pos = append(pos, t)
		case k == m:
			neg = append(neg, t)
		case k > m/2: // negative coefficient
			neg = append(neg, c.mk(&Term{Op: "bvmul", S: t.S, Args: []*Term{t, c.Const((-k)&m, w)}}))
		default:
			pos = append(pos, c.mk(&Term{Op: "bvmul", S: t.S, Args: []*Term{t, c.Const(k, w)}}))
		}
	}
	var acc *Term
	for _, t := range pos {
		if acc == nil {
			acc = t
		} else {
			acc = c.mk(&Term{Op: "bvadd", S: a.S, Args: []*Term{acc, t}})
		}
	}
	for _, t := range neg {
		if acc == nil {
			acc = c.mk(&Term{Op: "bvneg", S: a.S, Args: []*Term{t}})
		} else {
			acc = c.mk(&Term{Op: "bvsub", S: a.S, Args: []*Term{acc, t}})
		}
	}
	if acc == nil {
		return c.Const(cst, w)
	}
	if cst != 0 {
		acc = c.mk(&Term{Op: "bvadd", S: a.S, Args: []*Term{acc, c.Const(cst, w)}})
	}
	return acc
}

func isSum(t *Term) bool { return t.Op == "bvadd" || t.Op == "bvsub" || t.Op == "bvneg" }
