// Package smt is a small hash-consed SMT-LIB 2 term DAG over booleans,
// fixed-width bit-vectors and (nested) arrays, with local simplification and a
// printer that names shared nodes (DAG-shaped output, never tree-expanded).
package smt

import (
	"fmt"
	"math/bits"
	"sort"
	"strings"
)

type SortKind int

const (
	KBool SortKind = iota
	KBV
	KArray
)

type Sort struct {
	Kind SortKind
	W    int
	Idx  *Sort
	Elem *Sort
	str  string
}

var sortTab = map[string]*Sort{}

func intern(s *Sort) *Sort {
	if o, ok := sortTab[s.str]; ok {
		return o
	}
	sortTab[s.str] = s
	return s
}

var Bool = intern(&Sort{Kind: KBool, str: "Bool"})

func BV(w int) *Sort {
	return intern(&Sort{Kind: KBV, W: w, str: fmt.Sprintf("(_ BitVec %d)", w)})
}
func Array(idx, elem *Sort) *Sort {
	return intern(&Sort{Kind: KArray, Idx: idx, Elem: elem, str: "(Array " + idx.str + " " + elem.str + ")"})
}
func (s *Sort) String() string { return s.str }

type Term struct {
	Op    string // SMT operator, or "const", "var", "bvar", "forall", "exists", "true", "false"
	Args  []*Term
	S     *Sort
	V     uint64 // value for "const"
	Name  string // for var / bvar; for extract etc. the indexed-op text
	I1    int    // extract hi / extend amount
	I2    int    // extract lo
	id    int
	open  bool // mentions a bound variable not bound inside
	kb    uint64
	kbSet bool
	Bound []*Term
}

// Ctx owns the hash-cons table.
type Ctx struct {
	// FreshBase marks allocation-counter variables; OldRef marks references known to predate
	// every allocation made during the analysed call (parameters). Used to decide ref equalities.
	FreshBase map[int]bool
	OldRef    map[int]bool
	// AllocLB: an allocation-counter variable is at least Root+Off (Root: an earlier counter
	// without a bound of its own); counters never wrap (stated assumption: < 2^27 allocations)
	AllocLB map[int]AllocBound
	tab       map[string]*Term
	n         int
	fresh     int
	True      *Term
	False     *Term
}

func NewCtx() *Ctx {
	c := &Ctx{tab: map[string]*Term{}, FreshBase: map[int]bool{}, OldRef: map[int]bool{}, AllocLB: map[int]AllocBound{}}
	c.True = c.mk(&Term{Op: "true", S: Bool})
	c.False = c.mk(&Term{Op: "false", S: Bool})
	return c
}

func (c *Ctx) key(t *Term) string {
	var b strings.Builder
	b.WriteString(t.Op)
	b.WriteByte('|')
	b.WriteString(t.S.str)
	b.WriteByte('|')
	switch t.Op {
	case "const":
		fmt.Fprintf(&b, "%d", t.V)
	case "var", "bvar":
		b.WriteString(t.Name)
	case "extract", "zero_extend", "sign_extend":
		fmt.Fprintf(&b, "%d,%d", t.I1, t.I2)
	case "forall":
		fmt.Fprintf(&b, "%s,%d,%d", t.Name, t.I1, t.I2)
	case "app":
		b.WriteString(t.Name)
	}
	for _, a := range t.Args {
		fmt.Fprintf(&b, ",%d", a.id)
	}
	for _, a := range t.Bound {
		fmt.Fprintf(&b, ";%d", a.id)
	}
	return b.String()
}

func (c *Ctx) mk(t *Term) *Term {
	k := c.key(t)
	if o, ok := c.tab[k]; ok {
		return o
	}
	c.n++
	t.id = c.n
	if t.Op == "bvar" {
		t.open = true
	}
	for _, a := range t.Args {
		if a.open {
			t.open = true
		}
	}
	if t.Op == "forall" || t.Op == "exists" || t.Op == "lambda" {
		// closed if body's only free bound vars are ours (approximation: we never nest with escaping vars
		// except through explicit construction, in which case openFree recomputes)
		t.open = c.hasFreeBVar(t.Args[0], t.Bound)
	}
	c.tab[k] = t
	return t
}

func (c *Ctx) hasFreeBVar(t *Term, bound []*Term) bool {
	seen := map[int]bool{}
	var rec func(t *Term, bound []*Term) bool
	rec = func(t *Term, bound []*Term) bool {
		if !t.open {
			return false
		}
		if t.Op == "bvar" {
			for _, b := range bound {
				if b == t {
					return false
				}
			}
			return true
		}
		if t.Op == "forall" || t.Op == "exists" || t.Op == "lambda" {
			nb := append(append([]*Term{}, bound...), t.Bound...)
			return rec(t.Args[0], nb)
		}
		if seen[t.id] {
			return false
		}
		seen[t.id] = true
		for _, a := range t.Args {
			if rec(a, bound) {
				return true
			}
		}
		return false
	}
	return rec(t, bound)
}

func (t *Term) ID() int       { return t.id }
func (t *Term) IsConst() bool { return t.Op == "const" }
func (t *Term) IsTrue() bool  { return t.Op == "true" }

// IsOpen reports whether t mentions a bound variable outside a binder of its own.
func (t *Term) IsOpen() bool { return t.open }
func (t *Term) IsFalse() bool { return t.Op == "false" }
func (t *Term) Open() bool    { return t.open }

func mask(w int) uint64 {
	if w >= 64 {
		return ^uint64(0)
	}
	return (uint64(1) << uint(w)) - 1
}

func (c *Ctx) Const(v uint64, w int) *Term {
	return c.mk(&Term{Op: "const", S: BV(w), V: v & mask(w)})
}
func (c *Ctx) BoolConst(b bool) *Term {
	if b {
		return c.True
	}
	return c.False
}
func (c *Ctx) Var(name string, s *Sort) *Term {
	name = strings.ReplaceAll(name, "|", "!")
	return c.mk(&Term{Op: "var", S: s, Name: name})
}

// ResetFresh restarts the numbering of fresh names (each verification run is a separate set of
// queries, and equal prefixes of two runs then produce identical terms).
func (c *Ctx) ResetFresh() { c.fresh = 0 }

func (c *Ctx) Fresh(prefix string, s *Sort) *Term {
	c.fresh++
	return c.Var(fmt.Sprintf("%s!%d", sanitize(prefix), c.fresh), s)
}

// BVarFixed returns the bound variable with exactly this name (for canonical comprehensions).
func (c *Ctx) BVarFixed(name string, s *Sort) *Term {
	return c.mk(&Term{Op: "bvar", S: s, Name: sanitize(name) + "?fixed"})
}

func (c *Ctx) BVar(prefix string, s *Sort) *Term {
	c.fresh++
	return c.mk(&Term{Op: "bvar", S: s, Name: fmt.Sprintf("%s?%d", sanitize(prefix), c.fresh)})
}

func sanitize(s string) string {
	var b strings.Builder
	for _, r := range s {
		if r >= 'a' && r <= 'z' || r >= 'A' && r <= 'Z' || r >= '0' && r <= '9' || r == '_' || r == '.' {
			b.WriteRune(r)
		} else {
			b.WriteByte('_')
		}
	}
	return b.String()
}

// ---------- booleans

func (c *Ctx) Not(a *Term) *Term {
	switch {
	case a.IsTrue():
		return c.False
	case a.IsFalse():
		return c.True
	case a.Op == "not":
		return a.Args[0]
	}
	return c.mk(&Term{Op: "not", S: Bool, Args: []*Term{a}})
}

func (c *Ctx) nary(op string, unit, zero *Term, as []*Term) *Term {
	var out []*Term
	seen := map[int]bool{}
	var add func(t *Term) bool
	add = func(t *Term) bool {
		if t == zero {
			return false
		}
		if t == unit || seen[t.id] {
			return true
		}
		if t.Op == op {
			for _, x := range t.Args {
				if !add(x) {
					return false
				}
			}
			return true
		}
		seen[t.id] = true
		out = append(out, t)
		return true
	}
	for _, a := range as {
		if !add(a) {
			return zero
		}
	}
	for _, t := range out {
		if t.Op == "not" && seen[t.Args[0].id] {
			return zero
		}
	}
	switch len(out) {
	case 0:
		return unit
	case 1:
		return out[0]
	}
	return c.mk(&Term{Op: op, S: Bool, Args: out})
}

func (c *Ctx) And(as ...*Term) *Term { return c.nary("and", c.True, c.False, as) }
func (c *Ctx) Or(as ...*Term) *Term  { return c.nary("or", c.False, c.True, as) }
func (c *Ctx) Implies(a, b *Term) *Term {
	return c.Or(c.Not(a), b)
}
func (c *Ctx) Iff(a, b *Term) *Term { return c.Eq(a, b) }

func (c *Ctx) Ite(cond, a, b *Term) *Term {
	if cond.IsTrue() {
		return a
	}
	if cond.IsFalse() {
		return b
	}
	if a == b {
		return a
	}
	if a.S != b.S {
		panic(fmt.Sprintf("ite sort mismatch %s vs %s", a.S, b.S))
	}
	if a.S == Bool {
		if a.IsTrue() && b.IsFalse() {
			return cond
		}
		if a.IsFalse() && b.IsTrue() {
			return c.Not(cond)
		}
		if a.IsTrue() {
			return c.Or(cond, b)
		}
		if a.IsFalse() {
			return c.And(c.Not(cond), b)
		}
		if b.IsTrue() {
			return c.Or(c.Not(cond), a)
		}
		if b.IsFalse() {
			return c.And(cond, a)
		}
	}
	if cond.Op == "not" {
		return c.Ite(cond.Args[0], b, a)
	}
	// ite(c, x, ite(c, y, z)) = ite(c, x, z)
	if b.Op == "ite" && b.Args[0] == cond {
		return c.Ite(cond, a, b.Args[2])
	}
	if a.Op == "ite" && a.Args[0] == cond {
		return c.Ite(cond, a.Args[1], b)
	}
	return c.mk(&Term{Op: "ite", S: a.S, Args: []*Term{cond, a, b}})
}

func (c *Ctx) Eq(a, b *Term) *Term {
	if a == b {
		return c.True
	}
	if a.S != b.S {
		panic(fmt.Sprintf("eq sort mismatch %s vs %s (%s / %s)", a.S, b.S, a.Op, b.Op))
	}
	if a.IsConst() && b.IsConst() {
		return c.BoolConst(a.V == b.V)
	}
	if a.S.Kind == KBV && a.S.W == 32 {
		fa, fb := c.freshRef(a), c.freshRef(b)
		if fa != nil && (c.OldRef[b.id] || b.IsConst() && b.V < 0x100000) || fb != nil && (c.OldRef[a.id] || a.IsConst() && a.V < 0x100000) {
			return c.False
		}
		// snapshot objects (constants 0x08000000..0x0800ffff) are distinct from every program reference
		if a.IsConst() && a.V>>16 == 0x0800 && (fb != nil || c.OldRef[b.id]) || b.IsConst() && b.V>>16 == 0x0800 && (fa != nil || c.OldRef[a.id]) {
			return c.False
		}
		if fa != nil && fb != nil && fa == fb {
			_, ka := splitAdd(a)
			_, kb := splitAdd(b)
			return c.BoolConst(ka == kb)
		}
		if fa != nil && fb != nil {
			ra, oa, xa := c.allocBound(a)
			rb, ob, xb := c.allocBound(b)
			if ra == rb && (xa && !xb && ob > oa || xb && !xa && oa > ob) {
				return c.False
			}
		}
	}
	if a.S == Bool {
		if a.IsTrue() {
			return b
		}
		if b.IsTrue() {
			return a
		}
		if a.IsFalse() {
			return c.Not(b)
		}
		if b.IsFalse() {
			return c.Not(a)
		}
	}
	// ite(c, k1, k2) == k  with constants
	if b.IsConst() && a.Op == "ite" && a.Args[1].IsConst() && a.Args[2].IsConst() {
		return c.Ite(a.Args[0], c.Eq(a.Args[1], b), c.Eq(a.Args[2], b))
	}
	if a.IsConst() && b.Op == "ite" && b.Args[1].IsConst() && b.Args[2].IsConst() {
		return c.Ite(b.Args[0], c.Eq(b.Args[1], a), c.Eq(b.Args[2], a))
	}
	// (x & 2^k) == v  is a test of bit k
	for pass := 0; pass < 2; pass++ {
		if b.IsConst() && a.Op == "bvand" && a.Args[1].IsConst() && bits.OnesCount64(a.Args[1].V) == 1 {
			k := bits.TrailingZeros64(a.Args[1].V)
			bit := c.Extract(k, k, a.Args[0])
			switch b.V {
			case 0:
				return c.Eq(bit, c.Const(0, 1))
			case a.Args[1].V:
				return c.Eq(bit, c.Const(1, 1))
			default:
				return c.False
			}
		}
		a, b = b, a
	}
	if a.S.Kind == KBV && a.S.W == 1 && a.IsConst() {
		a, b = b, a
	}
	if a.S.Kind == KBV && a.S.W == 1 && b.IsConst() && b.V == 0 {
		return c.Not(c.Eq(a, c.Const(1, 1)))
	}
	if a.id > b.id {
		a, b = b, a
	}
	return c.mk(&Term{Op: "=", S: Bool, Args: []*Term{a, b}})
}

// ---------- bit-vectors

func (c *Ctx) bvbin(op string, a, b *Term) *Term {
	if a.S != b.S || a.S.Kind != KBV {
		panic(fmt.Sprintf("%s sort mismatch %s vs %s", op, a.S, b.S))
	}
	w := a.S.W
	if a.IsConst() && b.IsConst() {
		if v, ok := foldBV(op, a.V, b.V, w); ok {
			return c.Const(v, w)
		}
	}
	m := mask(w)
	switch op {
	case "bvadd":
		if a.IsConst() && a.V == 0 {
			return b
		}
		if b.IsConst() && b.V == 0 {
			return a
		}
		if w <= 64 && c.Maybe1(a)&c.Maybe1(b) == 0 {
			return c.bvbin("bvor", a, b)
		}
		return c.linNormalize("bvadd", a, b)
	case "bvsub":
		if b.IsConst() && b.V == 0 {
			return a
		}
		if a == b {
			return c.Const(0, w)
		}
		return c.linNormalize("bvsub", a, b)
	case "bvmul":
		if a.IsConst() && a.V == 0 || b.IsConst() && b.V == 0 {
			return c.Const(0, w)
		}
		if a.IsConst() {
			a, b = b, a
		}
		if b.IsConst() {
			// (x * k1) * k2 and (x << s) * k2 fold into one constant factor
			if a.Op == "bvmul" && a.Args[1].IsConst() {
				return c.bvbin("bvmul", a.Args[0], c.Const(a.Args[1].V*b.V, w))
			}
			if a.Op == "bvshl" && a.Args[1].IsConst() && a.Args[1].V < uint64(w) && bits.OnesCount64(b.V) != 1 {
				return c.bvbin("bvmul", a.Args[0], c.Const(b.V<<a.Args[1].V, w))
			}
		}
		if b.IsConst() && bits.OnesCount64(b.V) == 1 {
			if a.Op == "bvmul" && a.Args[1].IsConst() {
				return c.bvbin("bvmul", a.Args[0], c.Const(a.Args[1].V*b.V, w))
			}
			return c.bvbin("bvshl", a, c.Const(uint64(bits.TrailingZeros64(b.V)), w))
		}
		if a.IsConst() && a.V == 1 {
			return b
		}
		if b.IsConst() && b.V == 1 {
			return a
		}
	case "bvand":
		if a == b {
			return a
		}
		if a.IsConst() {
			a, b = b, a
		}
		if b.IsConst() {
			if b.V == 0 {
				return b
			}
			if b.V == m {
				return a
			}
			ka := c.Maybe1(a)
			if ka&^b.V == 0 {
				return a
			}
			if ka&b.V == 0 {
				return c.Const(0, w)
			}
			// push constant masks towards the leaves (bit-field normal form)
			switch a.Op {
			case "bvor", "bvxor", "bvand":
				return c.bvbin(a.Op, c.bvbin("bvand", a.Args[0], b), c.bvbin("bvand", a.Args[1], b))
			case "bvshl":
				if a.Args[1].IsConst() && a.Args[1].V < uint64(w) {
					return c.bvbin("bvshl", c.bvbin("bvand", a.Args[0], c.Const(b.V>>a.Args[1].V, w)), a.Args[1])
				}
			case "bvlshr":
				if a.Args[1].IsConst() && a.Args[1].V < uint64(w) {
					return c.bvbin("bvlshr", c.bvbin("bvand", a.Args[0], c.Const((b.V<<a.Args[1].V)&m, w)), a.Args[1])
				}
			case "zero_extend":
				iw := a.Args[0].S.W
				return c.ZeroExt(w-iw, c.bvbin("bvand", a.Args[0], c.Const(b.V&mask(iw), iw)))
			case "ite":
				if a.Args[1].IsConst() || a.Args[2].IsConst() {
					return c.Ite(a.Args[0], c.bvbin("bvand", a.Args[1], b), c.bvbin("bvand", a.Args[2], b))
				}
			}
		}
		return c.acNormalize("bvand", a, b)
	case "bvor":
		if a == b {
			return a
		}
		return c.acNormalize("bvor", a, b)
	case "bvxor":
		if a == b {
			return c.Const(0, w)
		}
		return c.acNormalize("bvxor", a, b)
	case "bvudiv":
		if b.IsConst() && bits.OnesCount64(b.V) == 1 {
			return c.bvbin("bvlshr", a, c.Const(uint64(bits.TrailingZeros64(b.V)), w))
		}
	case "bvurem":
		if b.IsConst() && bits.OnesCount64(b.V) == 1 {
			return c.bvbin("bvand", a, c.Const(b.V-1, w))
		}
	case "bvshl", "bvlshr", "bvashr":
		if b.IsConst() && b.V == 0 {
			return a
		}
		if b.IsConst() && b.V >= uint64(w) && op != "bvashr" {
			return c.Const(0, w)
		}
		if c.Maybe1(a) == 0 {
			return c.Const(0, w)
		}
		if b.IsConst() && op == "bvshl" && a.Op == "bvmul" && a.Args[1].IsConst() && b.V < uint64(w) {
			return c.bvbin("bvmul", a.Args[0], c.Const(a.Args[1].V<<b.V, w))
		}
		if b.IsConst() && op != "bvashr" {
			k := b.V
			switch a.Op {
			case "bvor", "bvand", "bvxor":
				if a.Op != "bvand" || !a.Args[1].IsConst() {
					return c.bvbin(a.Op, c.bvbin(op, a.Args[0], b), c.bvbin(op, a.Args[1], b))
				}
			case op:
				if a.Args[1].IsConst() {
					return c.bvbin(op, a.Args[0], c.Const(a.Args[1].V+k, w))
				}
			case "bvshl": // (x << i) >> k
				if op == "bvlshr" && a.Args[1].IsConst() && a.Args[1].V < uint64(w) {
					i := a.Args[1].V
					keep := c.Const(m>>k, w)
					if i >= k {
						return c.bvbin("bvand", c.bvbin("bvshl", a.Args[0], c.Const(i-k, w)), keep)
					}
					return c.bvbin("bvand", c.bvbin("bvlshr", a.Args[0], c.Const(k-i, w)), keep)
				}
			case "ite":
				if a.Args[1].IsConst() || a.Args[2].IsConst() {
					return c.Ite(a.Args[0], c.bvbin(op, a.Args[1], b), c.bvbin(op, a.Args[2], b))
				}
			}
		}
	}
	return c.mk(&Term{Op: op, S: a.S, Args: []*Term{a, b}})
}

func sext(v uint64, w int) int64 {
	if w >= 64 {
		return int64(v)
	}
	if v&(uint64(1)<<uint(w-1)) != 0 {
		return int64(v | ^mask(w))
	}
	return int64(v)
}

func foldBV(op string, a, b uint64, w int) (uint64, bool) {
	m := mask(w)
	switch op {
	case "bvadd":
		return (a + b) & m, true
	case "bvsub":
		return (a - b) & m, true
	case "bvmul":
		return (a * b) & m, true
	case "bvand":
		return a & b, true
	case "bvor":
		return a | b, true
	case "bvxor":
		return a ^ b, true
	case "bvshl":
		if b >= uint64(w) {
			return 0, true
		}
		return (a << b) & m, true
	case "bvlshr":
		if b >= uint64(w) {
			return 0, true
		}
		return a >> b, true
	case "bvashr":
		s := sext(a, w)
		if b >= uint64(w) {
			b = uint64(w - 1)
		}
		return uint64(s>>b) & m, true
	case "bvudiv":
		if b == 0 {
			return m, true
		}
		return a / b, true
	case "bvurem":
		if b == 0 {
			return a, true
		}
		return a % b, true
	case "bvsdiv":
		if b == 0 {
			return 0, false
		}
		x, y := sext(a, w), sext(b, w)
		if y == -1 {
			return uint64(-x) & m, true
		}
		return uint64(x/y) & m, true
	case "bvsrem":
		if b == 0 {
			return 0, false
		}
		x, y := sext(a, w), sext(b, w)
		if y == -1 {
			return 0, true
		}
		return uint64(x%y) & m, true
	}
	return 0, false
}

func (c *Ctx) BVAdd(a, b *Term) *Term  { return c.bvbin("bvadd", a, b) }
func (c *Ctx) BVSub(a, b *Term) *Term  { return c.bvbin("bvsub", a, b) }
func (c *Ctx) BVMul(a, b *Term) *Term  { return c.bvbin("bvmul", a, b) }
func (c *Ctx) BVAnd(a, b *Term) *Term  { return c.bvbin("bvand", a, b) }
func (c *Ctx) BVOr(a, b *Term) *Term   { return c.bvbin("bvor", a, b) }
func (c *Ctx) BVXor(a, b *Term) *Term  { return c.bvbin("bvxor", a, b) }
func (c *Ctx) BVShl(a, b *Term) *Term  { return c.bvbin("bvshl", a, b) }
func (c *Ctx) BVLshr(a, b *Term) *Term { return c.bvbin("bvlshr", a, b) }
func (c *Ctx) BVAshr(a, b *Term) *Term { return c.bvbin("bvashr", a, b) }
func (c *Ctx) BVUdiv(a, b *Term) *Term { return c.bvbin("bvudiv", a, b) }
func (c *Ctx) BVUrem(a, b *Term) *Term { return c.bvbin("bvurem", a, b) }
func (c *Ctx) BVSdiv(a, b *Term) *Term { return c.bvbin("bvsdiv", a, b) }
func (c *Ctx) BVSrem(a, b *Term) *Term { return c.bvbin("bvsrem", a, b) }

func (c *Ctx) BVNot(a *Term) *Term {
	if a.IsConst() {
		return c.Const(^a.V, a.S.W)
	}
	if a.Op == "bvnot" {
		return a.Args[0]
	}
	return c.mk(&Term{Op: "bvnot", S: a.S, Args: []*Term{a}})
}
func (c *Ctx) BVNeg(a *Term) *Term {
	if a.IsConst() {
		return c.Const(-a.V, a.S.W)
	}
	return c.linNormalize("bvsub", c.Const(0, a.S.W), a)
}

func (c *Ctx) cmp(op string, a, b *Term) *Term {
	if a.S != b.S || a.S.Kind != KBV {
		panic(fmt.Sprintf("%s sort mismatch %s vs %s", op, a.S, b.S))
	}
	w := a.S.W
	if a.IsConst() && b.IsConst() {
		switch op {
		case "bvult":
			return c.BoolConst(a.V < b.V)
		case "bvule":
			return c.BoolConst(a.V <= b.V)
		case "bvslt":
			return c.BoolConst(sext(a.V, w) < sext(b.V, w))
		case "bvsle":
			return c.BoolConst(sext(a.V, w) <= sext(b.V, w))
		}
	}
	if a == b {
		return c.BoolConst(op == "bvule" || op == "bvsle")
	}
	if op == "bvult" && b.IsConst() && b.V == 0 {
		return c.False
	}
	// comparisons against the sign boundary are tests of the top bit
	top := uint64(1) << uint(w-1)
	msb := func(x *Term) *Term { return c.Eq(c.Extract(w-1, w-1, x), c.Const(1, 1)) }
	switch {
	case op == "bvule" && a.IsConst() && a.V == top:
		return msb(b)
	case op == "bvult" && b.IsConst() && b.V == top:
		return c.Not(msb(a))
	case op == "bvult" && a.IsConst() && a.V == top-1:
		return msb(b)
	case op == "bvule" && b.IsConst() && b.V == top-1:
		return c.Not(msb(a))
	case op == "bvslt" && b.IsConst() && b.V == 0:
		return msb(a)
	case op == "bvsle" && a.IsConst() && a.V == 0:
		return c.Not(msb(b))
	}
	if w <= 64 && (op == "bvult" || op == "bvule") {
		if b.IsConst() {
			ka := c.Maybe1(a)
			if op == "bvult" && ka < b.V || op == "bvule" && ka <= b.V {
				return c.True
			}
		}
	}
	if op == "bvule" && a.IsConst() && a.V == 0 {
		return c.True
	}
	return c.mk(&Term{Op: op, S: Bool, Args: []*Term{a, b}})
}
func (c *Ctx) Ult(a, b *Term) *Term { return c.cmp("bvult", a, b) }
func (c *Ctx) Ule(a, b *Term) *Term { return c.cmp("bvule", a, b) }
func (c *Ctx) Slt(a, b *Term) *Term { return c.cmp("bvslt", a, b) }
func (c *Ctx) Sle(a, b *Term) *Term { return c.cmp("bvsle", a, b) }

func (c *Ctx) Extract(hi, lo int, a *Term) *Term {
	w := a.S.W
	if lo == 0 && hi == w-1 {
		return a
	}
	if a.IsConst() {
		return c.Const(a.V>>uint(lo), hi-lo+1)
	}
	if a.Op == "zero_extend" {
		iw := a.Args[0].S.W
		if hi < iw {
			return c.Extract(hi, lo, a.Args[0])
		}
		if lo >= iw {
			return c.Const(0, hi-lo+1)
		}
		if lo == 0 {
			return c.ZeroExt(hi+1-iw, a.Args[0])
		}
	}
	if a.Op == "sign_extend" {
		iw := a.Args[0].S.W
		if hi < iw {
			return c.Extract(hi, lo, a.Args[0])
		}
	}
	if a.Op == "extract" {
		return c.Extract(hi+a.I2, lo+a.I2, a.Args[0])
	}
	switch a.Op {
	case "bvor", "bvand", "bvxor":
		return c.bvbin(a.Op, c.Extract(hi, lo, a.Args[0]), c.Extract(hi, lo, a.Args[1]))
	case "bvshl":
		if a.Args[1].IsConst() {
			k := int(a.Args[1].V)
			if k <= lo {
				return c.Extract(hi-k, lo-k, a.Args[0])
			}
			if k > hi {
				return c.Const(0, hi-lo+1)
			}
		}
	case "bvlshr":
		if a.Args[1].IsConst() {
			k := int(a.Args[1].V)
			if hi+k < w {
				return c.Extract(hi+k, lo+k, a.Args[0])
			}
			if lo+k >= w {
				return c.Const(0, hi-lo+1)
			}
		}
	case "ite":
		if a.Args[1].IsConst() || a.Args[2].IsConst() {
			return c.Ite(a.Args[0], c.Extract(hi, lo, a.Args[1]), c.Extract(hi, lo, a.Args[2]))
		}
	case "bvadd", "bvsub", "bvmul":
		if lo == 0 {
			// low bits of a sum depend only on the low bits of the operands
			return c.bvbin(a.Op, c.Extract(hi, 0, a.Args[0]), c.Extract(hi, 0, a.Args[1]))
		}
	}
	if w <= 64 {
		ka := c.Maybe1(a)
		if (ka>>uint(lo))&mask(hi-lo+1) == 0 {
			return c.Const(0, hi-lo+1)
		}
	}
	if a.Op == "concat" {
		lw := a.Args[1].S.W
		if hi < lw {
			return c.Extract(hi, lo, a.Args[1])
		}
		if lo >= lw {
			return c.Extract(hi-lw, lo-lw, a.Args[0])
		}
	}
	return c.mk(&Term{Op: "extract", S: BV(hi - lo + 1), Args: []*Term{a}, I1: hi, I2: lo})
}
func (c *Ctx) ZeroExt(n int, a *Term) *Term {
	if n == 0 {
		return a
	}
	if a.IsConst() {
		return c.Const(a.V, a.S.W+n)
	}
	if a.Op == "zero_extend" {
		return c.ZeroExt(n+a.I1, a.Args[0])
	}
	if a.S.W+n <= 64 {
		nw := a.S.W + n
		switch a.Op {
		case "bvor", "bvand", "bvxor":
			if a.Op != "bvand" || !a.Args[1].IsConst() {
				return c.bvbin(a.Op, c.ZeroExt(n, a.Args[0]), c.ZeroExt(n, a.Args[1]))
			}
		case "bvlshr":
			if a.Args[1].IsConst() {
				return c.bvbin("bvlshr", c.ZeroExt(n, a.Args[0]), c.Const(a.Args[1].V, nw))
			}
		case "bvshl":
			if a.Args[1].IsConst() {
				return c.bvbin("bvand", c.bvbin("bvshl", c.ZeroExt(n, a.Args[0]), c.Const(a.Args[1].V, nw)), c.Const(mask(a.S.W), nw))
			}
		case "ite":
			if a.Args[1].IsConst() || a.Args[2].IsConst() {
				return c.Ite(a.Args[0], c.ZeroExt(n, a.Args[1]), c.ZeroExt(n, a.Args[2]))
			}
		}
	}
	return c.mk(&Term{Op: "zero_extend", S: BV(a.S.W + n), Args: []*Term{a}, I1: n})
}
func (c *Ctx) SignExt(n int, a *Term) *Term {
	if n == 0 {
		return a
	}
	if a.IsConst() {
		return c.Const(uint64(sext(a.V, a.S.W)), a.S.W+n)
	}
	return c.mk(&Term{Op: "sign_extend", S: BV(a.S.W + n), Args: []*Term{a}, I1: n})
}
func (c *Ctx) Concat(a, b *Term) *Term {
	if a.IsConst() && b.IsConst() && a.S.W+b.S.W <= 64 {
		return c.Const(a.V<<uint(b.S.W)|b.V, a.S.W+b.S.W)
	}
	return c.mk(&Term{Op: "concat", S: BV(a.S.W + b.S.W), Args: []*Term{a, b}})
}

// ---------- arrays

// Lambda builds the array  (lambda v. body);  reads of it are beta-reduced by Select.
func (c *Ctx) Lambda(v *Term, body *Term) *Term {
	// (lambda v. select(a, v)) with a closed in v is a itself
	if body.Op == "select" && body.Args[1] == v && !c.hasFreeBVarOf(body.Args[0], v) {
		return body.Args[0]
	}
	t := c.mk(&Term{Op: "lambda", S: Array(v.S, body.S), Args: []*Term{body}, Bound: []*Term{v}})
	return t
}

func (c *Ctx) hasFreeBVarOf(t, v *Term) bool {
	if !t.open {
		return false
	}
	seen := map[int]bool{}
	var rec func(t *Term) bool
	rec = func(t *Term) bool {
		if t == v {
			return true
		}
		if !t.open || seen[t.id] {
			return false
		}
		seen[t.id] = true
		for _, a := range t.Args {
			if rec(a) {
				return true
			}
		}
		return false
	}
	return rec(t)
}

func (c *Ctx) Select(a, i *Term) *Term {
	if a.S.Kind != KArray || a.S.Idx != i.S {
		panic(fmt.Sprintf("select sort mismatch %s [%s]", a.S, i.S))
	}
	if a.Op == "lambda" {
		return c.Subst(a.Args[0], map[*Term]*Term{a.Bound[0]: i})
	}
	// read-over-write with decidable index comparison
	for a.Op == "store" {
		j := a.Args[1]
		if j == i {
			return a.Args[2]
		}
		if d := c.distinct(i, j); d {
			a = a.Args[0]
			continue
		}
		// eager read-over-write through short store chains keeps reads at base arrays, so that
		// the bit-vector abstraction of array reads stays exact; long chains (bulk copies) are
		// left to the array theory, which instantiates them lazily
		if storeDepth(a) <= 8 {
			return c.Ite(c.Eq(i, j), a.Args[2], c.Select(a.Args[0], i))
		}
		break
	}
	if a.Op == "ite" {
		// push select into ite of arrays when both sides simplify (keeps formulas first-order friendly)
		return c.Ite(a.Args[0], c.Select(a.Args[1], i), c.Select(a.Args[2], i))
	}
	if a.Op == "constarr" {
		return a.Args[0]
	}
	return c.mk(&Term{Op: "select", S: a.S.Elem, Args: []*Term{a, i}})
}

func storeDepth(a *Term) int {
	n := 0
	for a.Op == "store" {
		n++
		a = a.Args[0]
	}
	return n
}

// distinct reports whether two index terms are syntactically known to differ.
func (c *Ctx) distinct(i, j *Term) bool {
	if i.IsConst() && j.IsConst() {
		return i.V != j.V
	}
	// x + k1 vs x + k2, x vs x + k
	bi, ki := splitAdd(i)
	bj, kj := splitAdd(j)
	if bi == bj && ki != kj {
		return true
	}
	return false
}

type AllocBound struct {
	Root *Term
	Off  uint64
}

// SetAllocLB records v >= prev for the counter variable v, prev being counter or counter+k.
func (c *Ctx) SetAllocLB(v, prev *Term) {
	delete(c.AllocLB, v.id) // names are reused from run to run
	b, k := splitAdd(prev)
	if !c.FreshBase[b.id] {
		return
	}
	if lb, ok := c.AllocLB[b.id]; ok {
		c.AllocLB[v.id] = AllocBound{lb.Root, lb.Off + k}
		return
	}
	c.AllocLB[v.id] = AllocBound{b, k}
}

// allocBound: t (counter or counter+k) equals root+off exactly, or is at least root+off.
func (c *Ctx) allocBound(t *Term) (root *Term, off uint64, exact bool) {
	b, k := splitAdd(t)
	if lb, ok := c.AllocLB[b.id]; ok {
		return lb.Root, lb.Off + k, false
	}
	return b, k, true
}

// freshRef returns the allocation-counter base of a freshly allocated reference (base or base+k).
func (c *Ctx) freshRef(t *Term) *Term {
	b, _ := splitAdd(t)
	if c.FreshBase[b.id] {
		return b
	}
	return nil
}

func splitAdd(t *Term) (*Term, uint64) {
	if t.Op == "bvadd" && t.Args[1].IsConst() {
		return t.Args[0], t.Args[1].V
	}
	return t, 0
}

func (c *Ctx) Store(a, i, v *Term) *Term {
	if a.S.Kind != KArray || a.S.Idx != i.S || a.S.Elem != v.S {
		panic(fmt.Sprintf("store sort mismatch %s [%s] := %s", a.S, i.S, v.S))
	}
	// store(a, i, select(a, i)) = a
	if v.Op == "select" && v.Args[0] == a && v.Args[1] == i {
		return a
	}
	// overwrite of same index
	if a.Op == "store" && a.Args[1] == i {
		return c.Store(a.Args[0], i, v)
	}
	return c.mk(&Term{Op: "store", S: a.S, Args: []*Term{a, i, v}})
}

// ConstArray is ((as const S) v).
func (c *Ctx) ConstArray(s *Sort, v *Term) *Term {
	return c.mk(&Term{Op: "constarr", S: s, Args: []*Term{v}})
}

// ---------- quantifiers, uninterpreted functions

func (c *Ctx) Forall(vars []*Term, body *Term) *Term {
	if body.IsTrue() {
		return c.True
	}
	if !c.hasFreeBVar(body, nil) {
		return body
	}
	return c.mk(&Term{Op: "forall", S: Bool, Args: []*Term{body}, Bound: vars})
}

// ForallRange is  forall v. lo <= v < hi ==> body  for constant lo, hi (signed 64-bit index);
// it can later be expanded into the conjunction of its instances (ExpandRanges).
func (c *Ctx) ForallRange(v *Term, lo, hi int, body *Term) *Term {
	if body.IsTrue() || hi <= lo {
		return c.True
	}
	if !c.hasFreeBVarOf(body, v) {
		return body
	}
	return c.mk(&Term{Op: "forall", S: Bool, Args: []*Term{body}, Bound: []*Term{v}, Name: "range", I1: lo, I2: hi})
}

// ExpandRanges replaces every range-quantifier by the conjunction of its instances.
func (c *Ctx) ExpandRanges(t *Term) *Term {
	memo := map[int]*Term{}
	var rec func(t *Term) *Term
	rec = func(t *Term) *Term {
		if len(t.Args) == 0 {
			return t
		}
		if r, ok := memo[t.id]; ok {
			return r
		}
		var r *Term
		if t.Op == "forall" && t.Name == "range" {
			body := rec(t.Args[0])
			var cs []*Term
			for k := t.I1; k < t.I2; k++ {
				cs = append(cs, c.Subst(body, map[*Term]*Term{t.Bound[0]: c.Const(uint64(int64(k)), t.Bound[0].S.W)}))
			}
			r = c.And(cs...)
		} else {
			args := make([]*Term, len(t.Args))
			ch := false
			for i, a := range t.Args {
				args[i] = rec(a)
				if args[i] != a {
					ch = true
				}
			}
			r = t
			if ch {
				r = c.Rebuild(t, args)
			}
		}
		memo[t.id] = r
		return r
	}
	return rec(t)
}

// HasRangeQuant reports whether t contains a range-quantifier.
func HasRangeQuant(ts ...*Term) bool {
	seen := map[int]bool{}
	var rec func(t *Term) bool
	rec = func(t *Term) bool {
		if seen[t.id] {
			return false
		}
		seen[t.id] = true
		if t.Op == "forall" && t.Name == "range" {
			return true
		}
		for _, a := range t.Args {
			if rec(a) {
				return true
			}
		}
		return false
	}
	for _, t := range ts {
		if rec(t) {
			return true
		}
	}
	return false
}

func (c *Ctx) Exists(vars []*Term, body *Term) *Term {
	if body.IsFalse() {
		return c.False
	}
	if !c.hasFreeBVar(body, nil) {
		return body
	}
	return c.mk(&Term{Op: "exists", S: Bool, Args: []*Term{body}, Bound: vars})
}

// App applies an uninterpreted function symbol (declared by the printer from its use).
func (c *Ctx) App(name string, res *Sort, args ...*Term) *Term {
	name = strings.ReplaceAll(name, "|", "!")
	return c.mk(&Term{Op: "app", Name: name, S: res, Args: args})
}

// Subst replaces bound/free variables (by identity) in t.
func (c *Ctx) Subst(t *Term, m map[*Term]*Term) *Term {
	memo := map[int]*Term{}
	var rec func(t *Term) *Term
	rec = func(t *Term) *Term {
		if r, ok := m[t]; ok {
			return r
		}
		if len(t.Args) == 0 {
			return t
		}
		if r, ok := memo[t.id]; ok {
			return r
		}
		args := make([]*Term, len(t.Args))
		ch := false
		for i, a := range t.Args {
			args[i] = rec(a)
			if args[i] != a {
				ch = true
			}
		}
		r := t
		if ch {
			r = c.Rebuild(t, args)
		}
		memo[t.id] = r
		return r
	}
	return rec(t)
}

// Rebuild re-applies t's operator to new arguments through the simplifying constructors.
func (c *Ctx) Rebuild(t *Term, a []*Term) *Term {
	switch t.Op {
	case "not":
		return c.Not(a[0])
	case "and":
		return c.And(a...)
	case "or":
		return c.Or(a...)
	case "ite":
		return c.Ite(a[0], a[1], a[2])
	case "=":
		return c.Eq(a[0], a[1])
	case "bvadd", "bvsub", "bvmul", "bvand", "bvor", "bvxor", "bvshl", "bvlshr", "bvashr", "bvudiv", "bvurem", "bvsdiv", "bvsrem":
		return c.bvbin(t.Op, a[0], a[1])
	case "bvnot":
		return c.BVNot(a[0])
	case "bvneg":
		return c.BVNeg(a[0])
	case "bvult", "bvule", "bvslt", "bvsle":
		return c.cmp(t.Op, a[0], a[1])
	case "extract":
		return c.Extract(t.I1, t.I2, a[0])
	case "zero_extend":
		return c.ZeroExt(t.I1, a[0])
	case "sign_extend":
		return c.SignExt(t.I1, a[0])
	case "concat":
		return c.Concat(a[0], a[1])
	case "select":
		return c.Select(a[0], a[1])
	case "store":
		return c.Store(a[0], a[1], a[2])
	case "constarr":
		return c.ConstArray(t.S, a[0])
	case "lambda":
		return c.Lambda(t.Bound[0], a[0])
	case "forall":
		if t.Name == "range" {
			return c.ForallRange(t.Bound[0], t.I1, t.I2, a[0])
		}
		return c.Forall(t.Bound, a[0])
	case "exists":
		return c.Exists(t.Bound, a[0])
	case "app":
		return c.App(t.Name, t.S, a...)
	}
	panic("rebuild: " + t.Op)
}

// ---------- printing

func bvLit(v uint64, w int) string {
	if w%4 == 0 {
		return fmt.Sprintf("#x%0*x", w/4, v)
	}
	return fmt.Sprintf("#b%0*b", w, v)
}

// Script renders the satisfiability problem "all asserts hold" with shared closed
// sub-terms named by declared constants. gets lists terms whose values are requested
// after check-sat.
type Script struct {
	Text      string
	GetNames  []string // label for each requested value, parallel to gets
	HasQuant  bool
	HasLambda bool // uses z3's lambda array terms (cvc5 cannot read the script)
}

// ScriptAbstract renders a QF_BV over-approximation of the problem: every array read and every
// uninterpreted application of bit-vector/boolean sort becomes a fresh constant. If the
// abstraction is unsatisfiable so is the original; a "sat" answer for it means nothing.
// Returns nil when the problem has quantifiers or array-sorted terms that cannot be abstracted.
func (c *Ctx) ScriptAbstract(asserts []*Term) *Script {
	return c.script(asserts, nil, "QF_BV", false, true)
}

func (c *Ctx) Script(asserts []*Term, gets []*Term, logic string, produceModels bool) *Script {
	return c.script(asserts, gets, logic, produceModels, false)
}

func (c *Ctx) script(asserts []*Term, gets []*Term, logic string, produceModels bool, abstract bool) *Script {
	// count references among closed terms
	refs := map[int]int{}
	var order []*Term
	seen := map[int]bool{}
	hasQ := false
	var visit func(t *Term)
	absOK := true
	visit = func(t *Term) {
		refs[t.id]++
		if seen[t.id] {
			return
		}
		seen[t.id] = true
		if t.Op == "forall" || t.Op == "exists" {
			hasQ = true
		}
		if abstract && (t.Op == "select" || t.Op == "app") && t.S.Kind != KArray {
			// leaf of the abstraction
			order = append(order, t)
			return
		}
		if abstract && t.S.Kind == KArray {
			absOK = false
		}
		for _, a := range t.Args {
			visit(a)
		}
		order = append(order, t)
	}
	for _, a := range asserts {
		visit(a)
	}
	for _, g := range gets {
		visit(g)
	}
	if abstract && (!absOK || hasQ) {
		return nil
	}
	named := map[int]string{}
	sc0 := &Script{}
	var b strings.Builder
	if produceModels {
		b.WriteString("(set-option :produce-models true)\n")
	}
	if logic != "" {
		fmt.Fprintf(&b, "(set-logic %s)\n", logic)
	}
	// declarations of vars and uninterpreted functions
	var decls []string
	declSeen := map[string]bool{}
	for _, t := range order {
		if abstract && (t.Op == "select" || t.Op == "app") {
			decls = append(decls, fmt.Sprintf("(declare-const abs%d %s)", t.id, t.S))
			named[t.id] = fmt.Sprintf("abs%d", t.id)
			continue
		}
		switch t.Op {
		case "var":
			if !declSeen[t.Name] {
				declSeen[t.Name] = true
				decls = append(decls, fmt.Sprintf("(declare-const |%s| %s)", t.Name, t.S))
			}
		case "app":
			if !declSeen["f:"+t.Name] {
				declSeen["f:"+t.Name] = true
				var as []string
				for _, a := range t.Args {
					as = append(as, a.S.String())
				}
				decls = append(decls, fmt.Sprintf("(declare-fun |%s| (%s) %s)", t.Name, strings.Join(as, " "), t.S))
			}
		}
	}
	sort.Strings(decls)
	for _, d := range decls {
		b.WriteString(d)
		b.WriteByte('\n')
	}
	var pr func(t *Term) string
	// prBinderBody prints the body of a binder with let-bindings for open sub-terms that occur
	// more than once inside it (closed sub-terms are already named globally).
	prBinderBody := func(body *Term) string {
		cnt := map[int]int{}
		var ord []*Term
		var walk func(t *Term)
		walk = func(t *Term) {
			if !t.open || len(t.Args) == 0 {
				return
			}
			cnt[t.id]++
			if cnt[t.id] > 1 {
				return
			}
			if t.Op == "forall" || t.Op == "exists" || t.Op == "lambda" {
				ord = append(ord, t)
				return // inner binders handle their own bodies
			}
			for _, a := range t.Args {
				walk(a)
			}
			ord = append(ord, t)
		}
		walk(body)
		var lets []string
		var letIDs []int
		for _, t := range ord {
			if cnt[t.id] > 1 && t != body {
				s := pr(t)
				n := fmt.Sprintf("l%d", t.id)
				lets = append(lets, fmt.Sprintf("(let ((%s %s)) ", n, s))
				named[t.id] = n
				letIDs = append(letIDs, t.id)
			}
		}
		out := strings.Join(lets, "") + pr(body) + strings.Repeat(")", len(lets))
		for _, id := range letIDs {
			delete(named, id)
		}
		return out
	}
	pr = func(t *Term) string {
		if n, ok := named[t.id]; ok {
			return n
		}
		switch t.Op {
		case "true", "false":
			return t.Op
		case "const":
			return bvLit(t.V, t.S.W)
		case "var", "bvar":
			return "|" + t.Name + "|"
		}
		var as []string
		if t.Op == "forall" || t.Op == "exists" || t.Op == "lambda" {
			as = []string{prBinderBody(t.Args[0])}
		} else {
			for _, a := range t.Args {
				as = append(as, pr(a))
			}
		}
		switch t.Op {
		case "extract":
			return fmt.Sprintf("((_ extract %d %d) %s)", t.I1, t.I2, as[0])
		case "zero_extend", "sign_extend":
			return fmt.Sprintf("((_ %s %d) %s)", t.Op, t.I1, as[0])
		case "constarr":
			return fmt.Sprintf("((as const %s) %s)", t.S, as[0])
		case "app":
			if len(as) == 0 {
				return "|" + t.Name + "|"
			}
			return "(|" + t.Name + "| " + strings.Join(as, " ") + ")"
		case "lambda":
			sc0.HasLambda = true
			v := t.Bound[0]
			return fmt.Sprintf("(lambda ((|%s| %s)) %s)", v.Name, v.S, as[0])
		case "forall", "exists":
			var vs []string
			for _, v := range t.Bound {
				vs = append(vs, fmt.Sprintf("(|%s| %s)", v.Name, v.S))
			}
			if t.Op == "forall" && t.Name == "range" {
				v := "|" + t.Bound[0].Name + "|"
				w := t.Bound[0].S.W
				return fmt.Sprintf("(forall (%s) (=> (and (bvsle %s %s) (bvslt %s %s)) %s))", strings.Join(vs, " "),
					bvLit(uint64(int64(t.I1))&mask(w), w), v, v, bvLit(uint64(int64(t.I2))&mask(w), w), as[0])
			}
			return fmt.Sprintf("(%s (%s) %s)", t.Op, strings.Join(vs, " "), as[0])
		}
		return "(" + t.Op + " " + strings.Join(as, " ") + ")"
	}
	for _, t := range order {
		if t.open || len(t.Args) == 0 {
			continue
		}
		if refs[t.id] > 1 || depthBig(t) {
			s := pr(t)
			n := fmt.Sprintf("t%d", t.id)
			fmt.Fprintf(&b, "(declare-const %s %s)\n(assert (= %s %s))\n", n, t.S, n, s)
			named[t.id] = n
		}
	}
	// valid bit-vector lemmas relating division and remainder by a constant (they spare the
	// solver from rediscovering x = (x div k)*k + x mod k through the bit-blasted divider)
	for _, t := range order {
		if (t.Op == "bvudiv" || t.Op == "bvurem") && !t.open && t.Args[1].IsConst() && t.Args[1].V > 1 {
			x, k := t.Args[0], t.Args[1]
			q := c.bvbin("bvudiv", x, k)
			r := c.bvbin("bvurem", x, k)
			qs, rs, xs, ks := pr(q), pr(r), pr(x), pr(k)
			fmt.Fprintf(&b, "(assert (= %s (bvadd (bvmul %s %s) %s)))\n", xs, qs, ks, rs)
			fmt.Fprintf(&b, "(assert (bvult %s %s))\n", rs, ks)
			fmt.Fprintf(&b, "(assert (bvule %s %s))\n", qs, bvLit(mask(x.S.W)/k.V, x.S.W))
		}
	}
	for _, t := range order {
		if (t.Op == "bvsdiv" || t.Op == "bvsrem") && !t.open && t.Args[1].IsConst() && t.Args[1].V > 1 && t.Args[1].V < 1<<31 {
			// truncated signed division by a positive constant: x = q*k + r, r has the sign of x
			x, k := t.Args[0], t.Args[1]
			q := c.bvbin("bvsdiv", x, k)
			r := c.bvbin("bvsrem", x, k)
			qs, rs, xs, ks := pr(q), pr(r), pr(x), pr(k)
			zero := bvLit(0, x.S.W)
			fmt.Fprintf(&b, "(assert (= %s (bvadd (bvmul %s %s) %s)))\n", xs, qs, ks, rs)
			fmt.Fprintf(&b, "(assert (ite (bvsge %s %s) (and (bvsge %s %s) (bvslt %s %s) (bvsge %s %s) (bvsle %s %s)) (and (bvsgt %s (bvneg %s)) (bvsle %s %s) (bvsle %s %s) (bvsge %s %s))))\n",
				xs, zero, rs, zero, rs, ks, qs, zero, qs, xs, rs, ks, rs, zero, qs, zero, qs, xs)
		}
	}
	// monotonicity of multiplication by a constant, for every pair of products x*k, y*k in the
	// problem (including the q*k of the division lemmas): when neither product wraps,
	// x*k < y*k implies x*k + k <= y*k, and equal products have equal factors. Bit-blasting does
	// not find this ("both are multiples of 188") in reasonable time.
	type mulT struct {
		x, k *Term
	}
	var muls []mulT
	seenMul := map[[2]int]bool{}
	addMul := func(x, k *Term) {
		if x.open || k.V <= 1 || seenMul[[2]int{x.id, k.id}] {
			return
		}
		seenMul[[2]int{x.id, k.id}] = true
		muls = append(muls, mulT{x, k})
	}
	for _, t := range order {
		switch {
		case t.Op == "bvmul" && !t.open && t.Args[1].IsConst():
			addMul(t.Args[0], t.Args[1])
		case t.Op == "bvmul" && !t.open && t.Args[0].IsConst():
			addMul(t.Args[1], t.Args[0])
		case (t.Op == "bvsdiv" || t.Op == "bvsrem") && !t.open && t.Args[1].IsConst() && t.Args[1].V > 1 && t.Args[1].V < 1<<31:
			addMul(c.bvbin("bvsdiv", t.Args[0], t.Args[1]), t.Args[1])
		case (t.Op == "bvudiv" || t.Op == "bvurem") && !t.open && t.Args[1].IsConst() && t.Args[1].V > 1:
			addMul(c.bvbin("bvudiv", t.Args[0], t.Args[1]), t.Args[1])
		}
	}
	nPairs := 0
	for i := 0; i < len(muls) && nPairs < 24; i++ {
		for j := i + 1; j < len(muls) && nPairs < 24; j++ {
			a, bb := muls[i], muls[j]
			if a.k != bb.k || a.x.S != bb.x.S {
				continue
			}
			nPairs++
			w := a.x.S.W
			ks := pr(a.k)
			xs, ys := pr(a.x), pr(bb.x)
			px := fmt.Sprintf("(bvmul %s %s)", xs, ks)
			py := fmt.Sprintf("(bvmul %s %s)", ys, ks)
			bound := bvLit(mask(w)/a.k.V, w)
			fmt.Fprintf(&b, "(assert (=> (and (bvule %s %s) (bvule %s %s)) (and (=> (bvult %s %s) (bvule (bvadd %s %s) %s)) (=> (bvult %s %s) (bvule (bvadd %s %s) %s)) (=> (= %s %s) (= %s %s)))))\n",
				xs, bound, ys, bound, px, py, px, ks, py, py, px, py, ks, px, px, py, xs, ys)
			// successor factors (always valid): (x+1)*k = x*k + k
			one := bvLit(1, w)
			fmt.Fprintf(&b, "(assert (and (=> (= %s (bvadd %s %s)) (= %s (bvadd %s %s))) (=> (= %s (bvadd %s %s)) (= %s (bvadd %s %s)))))\n",
				ys, xs, one, py, px, ks, xs, ys, one, px, py, ks)
			// congruence, spelled out for the bit-blaster: equal factors, equal products
			fmt.Fprintf(&b, "(assert (=> (= %s %s) (= %s %s)))\n", xs, ys, px, py)
			// and the converse of the successor rule when neither product wraps: products one k apart
			// have factors one apart
			fmt.Fprintf(&b, "(assert (=> (and (bvule %s %s) (bvule %s %s)) (and (=> (= %s (bvadd %s %s)) (= %s (bvadd %s %s))) (=> (= %s (bvadd %s %s)) (= %s (bvadd %s %s))))))\n",
				xs, bound, ys, bound, py, px, ks, ys, xs, one, px, py, ks, xs, ys, one)
		}
	}
	emitted := map[int]bool{}
	for _, a := range asserts {
		if a.IsTrue() || emitted[a.id] {
			continue
		}
		emitted[a.id] = true
		fmt.Fprintf(&b, "(assert %s)\n", pr(a))
	}
	b.WriteString("(check-sat)\n")
	sc := sc0
	sc.HasQuant = hasQ
	if len(gets) > 0 {
		b.WriteString("(get-value (")
		for _, g := range gets {
			b.WriteString(pr(g))
			b.WriteByte(' ')
		}
		b.WriteString("))\n")
	}
	sc.Text = b.String()
	return sc
}

// depthBig forces naming of nodes with many arguments so lines stay short.
func depthBig(t *Term) bool { return len(t.Args) > 8 }

// Size returns the number of distinct nodes reachable from ts.
func Size(ts ...*Term) int {
	seen := map[int]bool{}
	var v func(t *Term)
	v = func(t *Term) {
		if seen[t.id] {
			return
		}
		seen[t.id] = true
		for _, a := range t.Args {
			v(a)
		}
	}
	for _, t := range ts {
		v(t)
	}
	return len(seen)
}

var _ = bits.Len
