package smt

import (
	"fmt"
	"math/rand"
	"testing"
)

// expr is an independent tiny AST evaluated directly, against which the simplifying
// constructors are cross-checked.
type expr struct {
	op   string
	w    int
	a, b *expr
	c    *expr
	v    uint64
	name string
	i1   int
	i2   int
}

var widths = []int{8, 16, 32, 64}

func genBV(r *rand.Rand, w, d int) *expr {
	if d == 0 || r.Intn(6) == 0 {
		if r.Intn(3) == 0 {
			vals := []uint64{0, 1, 2, 0xff, 0x0f, 0xf0, 0x1f, 0x80, 300, 1 << 25, mask(w), uint64(r.Int63())}
			return &expr{op: "const", w: w, v: vals[r.Intn(len(vals))] & mask(w)}
		}
		return &expr{op: "var", w: w, name: string(rune('a'+r.Intn(3))) + itoa(w)}
	}
	switch r.Intn(14) {
	case 0, 1:
		ops := []string{"bvadd", "bvsub", "bvmul", "bvand", "bvor", "bvxor"}
		return &expr{op: ops[r.Intn(len(ops))], w: w, a: genBV(r, w, d-1), b: genBV(r, w, d-1)}
	case 2, 3:
		ops := []string{"bvand", "bvor"}
		return &expr{op: ops[r.Intn(len(ops))], w: w, a: genBV(r, w, d-1), b: genBV(r, w, d-1)}
	case 4, 5:
		ops := []string{"bvshl", "bvlshr", "bvashr"}
		sh := &expr{op: "const", w: w, v: uint64(r.Intn(w + 3))}
		if r.Intn(4) == 0 {
			sh = genBV(r, w, d-1)
		}
		return &expr{op: ops[r.Intn(len(ops))], w: w, a: genBV(r, w, d-1), b: sh}
	case 6:
		ops := []string{"bvudiv", "bvurem"}
		ks := []uint64{1, 2, 3, 128, 300, 256}
		return &expr{op: ops[r.Intn(2)], w: w, a: genBV(r, w, d-1), b: &expr{op: "const", w: w, v: ks[r.Intn(len(ks))] & mask(w)}}
	case 7, 8:
		// zero/sign extend from narrower
		var nws []int
		for _, x := range widths {
			if x < w {
				nws = append(nws, x)
			}
		}
		if len(nws) == 0 {
			return genBV(r, w, d-1)
		}
		nw := nws[r.Intn(len(nws))]
		op := "zero_extend"
		if r.Intn(4) == 0 {
			op = "sign_extend"
		}
		return &expr{op: op, w: w, a: genBV(r, nw, d-1), i1: w - nw}
	case 9, 10:
		// extract from wider
		var ws []int
		for _, x := range widths {
			if x > w {
				ws = append(ws, x)
			}
		}
		if len(ws) == 0 {
			return genBV(r, w, d-1)
		}
		ww := ws[r.Intn(len(ws))]
		lo := 0
		if r.Intn(3) == 0 {
			lo = r.Intn(ww - w + 1)
		}
		return &expr{op: "extract", w: w, a: genBV(r, ww, d-1), i1: lo + w - 1, i2: lo}
	case 11:
		return &expr{op: "ite", w: w, c: genBool(r, d-1), a: genBV(r, w, d-1), b: genBV(r, w, d-1)}
	case 12:
		return &expr{op: "bvnot", w: w, a: genBV(r, w, d-1)}
	default:
		return &expr{op: "bvneg", w: w, a: genBV(r, w, d-1)}
	}
}

func genBool(r *rand.Rand, d int) *expr {
	w := widths[r.Intn(len(widths))]
	if d == 0 {
		d = 1
	}
	switch r.Intn(8) {
	case 0:
		return &expr{op: "not", a: genBool(r, d-1)}
	case 1:
		return &expr{op: "and", a: genBool(r, d-1), b: genBool(r, d-1)}
	case 2:
		return &expr{op: "or", a: genBool(r, d-1), b: genBool(r, d-1)}
	case 3:
		return &expr{op: "=", a: genBV(r, w, d-1), b: genBV(r, w, d-1)}
	default:
		ops := []string{"bvult", "bvule", "bvslt", "bvsle"}
		return &expr{op: ops[r.Intn(4)], a: genBV(r, w, d-1), b: genBV(r, w, d-1)}
	}
}

func itoa(i int) string {
	if i == 8 {
		return "8"
	}
	if i == 16 {
		return "16"
	}
	if i == 32 {
		return "32"
	}
	return "64"
}

func (e *expr) eval(env map[string]uint64) uint64 {
	b2u := func(b bool) uint64 {
		if b {
			return 1
		}
		return 0
	}
	switch e.op {
	case "const":
		return e.v
	case "var":
		return env[e.name] & mask(e.w)
	case "not":
		return 1 - e.a.eval(env)
	case "and":
		return e.a.eval(env) & e.b.eval(env)
	case "or":
		return e.a.eval(env) | e.b.eval(env)
	case "=":
		return b2u(e.a.eval(env) == e.b.eval(env))
	case "bvult":
		return b2u(e.a.eval(env) < e.b.eval(env))
	case "bvule":
		return b2u(e.a.eval(env) <= e.b.eval(env))
	case "bvslt":
		return b2u(sext(e.a.eval(env), e.a.w) < sext(e.b.eval(env), e.a.w))
	case "bvsle":
		return b2u(sext(e.a.eval(env), e.a.w) <= sext(e.b.eval(env), e.a.w))
	case "ite":
		if e.c.eval(env) == 1 {
			return e.a.eval(env)
		}
		return e.b.eval(env)
	case "bvnot":
		return ^e.a.eval(env) & mask(e.w)
	case "bvneg":
		return -e.a.eval(env) & mask(e.w)
	case "zero_extend":
		return e.a.eval(env)
	case "sign_extend":
		return uint64(sext(e.a.eval(env), e.a.w)) & mask(e.w)
	case "extract":
		return (e.a.eval(env) >> uint(e.i2)) & mask(e.w)
	}
	v, _ := foldBV(e.op, e.a.eval(env), e.b.eval(env), e.w)
	return v
}

func (e *expr) build(c *Ctx) *Term {
	switch e.op {
	case "const":
		return c.Const(e.v, e.w)
	case "var":
		return c.Var(e.name, BV(e.w))
	case "not":
		return c.Not(e.a.build(c))
	case "and":
		return c.And(e.a.build(c), e.b.build(c))
	case "or":
		return c.Or(e.a.build(c), e.b.build(c))
	case "=":
		return c.Eq(e.a.build(c), e.b.build(c))
	case "bvult", "bvule", "bvslt", "bvsle":
		return c.cmp(e.op, e.a.build(c), e.b.build(c))
	case "ite":
		return c.Ite(e.c.build(c), e.a.build(c), e.b.build(c))
	case "bvnot":
		return c.BVNot(e.a.build(c))
	case "bvneg":
		return c.BVNeg(e.a.build(c))
	case "zero_extend":
		return c.ZeroExt(e.i1, e.a.build(c))
	case "sign_extend":
		return c.SignExt(e.i1, e.a.build(c))
	case "extract":
		return c.Extract(e.i1, e.i2, e.a.build(c))
	}
	return c.bvbin(e.op, e.a.build(c), e.b.build(c))
}

func TestSimplifierAgainstDirectEvaluation(t *testing.T) {
	r := rand.New(rand.NewSource(12345))
	c := NewCtx()
	names := []string{}
	for _, w := range widths {
		for _, n := range []string{"a", "b", "c"} {
			names = append(names, n+itoa(w))
		}
	}
	for iter := 0; iter < 60000; iter++ {
		var e *expr
		if iter%3 == 0 {
			e = genBool(r, 4)
		} else {
			e = genBV(r, widths[r.Intn(len(widths))], 5)
		}
		tm := e.build(c)
		for k := 0; k < 6; k++ {
			env := map[string]uint64{}
			for _, n := range names {
				switch r.Intn(4) {
				case 0:
					env[n] = uint64(r.Intn(4))
				case 1:
					env[n] = ^uint64(0) - uint64(r.Intn(3))
				default:
					env[n] = r.Uint64()
				}
			}
			want := e.eval(env)
			got := Eval(tm, env)
			if want != got {
				t.Fatalf("iter %d: simplifier changed the value: want %#x got %#x\nexpr: %s\nenv: %v", iter, want, got, e.str(), env)
			}
		}
	}
}

func (e *expr) str() string {
	switch e.op {
	case "const":
		return fmt.Sprintf("%#x:%d", e.v, e.w)
	case "var":
		return e.name
	case "ite":
		return "ite(" + e.c.str() + "," + e.a.str() + "," + e.b.str() + ")"
	case "extract", "zero_extend", "sign_extend":
		return fmt.Sprintf("%s[%d,%d](%s)", e.op, e.i1, e.i2, e.a.str())
	}
	if e.b == nil {
		return e.op + "(" + e.a.str() + ")"
	}
	return e.op + "(" + e.a.str() + "," + e.b.str() + ")"
}
