package smt

import "sort"

// InstantiateHints returns ground instances of the universally quantified facts among asserts
// (quantifiers in positive polarity below and / not-or / not-not, and negated existentials), taken
// at the non-constant ground index terms that occur in array reads of the problem. Every instance
// is a logical consequence of its quantifier, so adding them never changes satisfiability; it only
// spares the solvers' (seed-sensitive) quantifier instantiation the cases a loop or a postcondition
// argument needs most often: the current loop index and its neighbours.
func (c *Ctx) InstantiateHints(asserts []*Term, maxPerQuant int) (extra []*Term, qfree []*Term) {
	hasQ := map[int]bool{}
	var hq func(t *Term) bool
	hq = func(t *Term) bool {
		if v, ok := hasQ[t.id]; ok {
			return v
		}
		r := t.Op == "forall" || t.Op == "exists"
		for _, a := range t.Args {
			if hq(a) {
				r = true
			}
		}
		hasQ[t.id] = r
		return r
	}
	type q struct {
		t   *Term
		neg bool    // the quantifier is an exists under negation: forall v. not body
		g   []*Term // guards: the fact holds unless one of these does (it sits under a disjunction)
	}
	var qs []q
	var out []*Term
	var sks []*Term
	seenQ := map[int]bool{}
	// skolem: a negated universal (or an asserted existential) gets a witness constant, which is
	// then the first candidate for instantiating the universal facts
	guarded := func(g []*Term, x *Term) *Term {
		if len(g) == 0 {
			return x
		}
		return c.Or(append(append([]*Term{}, g...), x)...)
	}
	skolem := func(t *Term, negBody bool, g []*Term) {
		if len(t.Bound) != 1 || seenQ[t.id] {
			return
		}
		seenQ[t.id] = true
		v := t.Bound[0]
		sk := c.Fresh("sk", v.S)
		w := c.Subst(t.Args[0], map[*Term]*Term{v: sk})
		if negBody {
			w = c.Not(w)
		}
		if t.Name == "range" {
			w = c.And(c.Sle(c.Const(uint64(int64(t.I1)), v.S.W), sk), c.Slt(sk, c.Const(uint64(int64(t.I2)), v.S.W)), w)
		}
		out = append(out, guarded(g, w))
		sks = append(sks, sk)
	}
	var pos, neg func(t *Term, g []*Term)
	// split: a disjunction (conjunction under negation) with exactly one quantified member is
	// entered through that member, the others become guards
	split := func(args []*Term, negate bool) (*Term, []*Term, bool) {
		var qm *Term
		var rest []*Term
		for _, a := range args {
			if hq(a) {
				if qm != nil {
					return nil, nil, false
				}
				qm = a
			} else if negate {
				rest = append(rest, c.Not(a))
			} else {
				rest = append(rest, a)
			}
		}
		return qm, rest, qm != nil
	}
	pos = func(t *Term, g []*Term) {
		if !hq(t) {
			qfree = append(qfree, guarded(g, t))
			return
		}
		switch t.Op {
		case "and":
			for _, a := range t.Args {
				pos(a, g)
			}
		case "or":
			if qm, rest, ok := split(t.Args, false); ok && len(g)+len(rest) <= 6 {
				pos(qm, append(append([]*Term{}, g...), rest...))
			}
		case "not":
			neg(t.Args[0], g)
		case "forall":
			if len(t.Bound) == 1 && !seenQ[t.id] {
				seenQ[t.id] = true
				qs = append(qs, q{t, false, g})
			}
		case "exists":
			skolem(t, false, g)
		}
	}
	neg = func(t *Term, g []*Term) {
		if !hq(t) {
			qfree = append(qfree, guarded(g, c.Not(t)))
			return
		}
		switch t.Op {
		case "or":
			for _, a := range t.Args {
				neg(a, g)
			}
		case "and":
			if qm, rest, ok := split(t.Args, true); ok && len(g)+len(rest) <= 6 {
				neg(qm, append(append([]*Term{}, g...), rest...))
			}
		case "not":
			pos(t.Args[0], g)
		case "exists":
			if len(t.Bound) == 1 && !seenQ[t.id] {
				seenQ[t.id] = true
				qs = append(qs, q{t, true, g})
			}
		case "forall":
			skolem(t, true, g)
		}
	}
	for _, a := range asserts {
		pos(a, nil)
	}
	if len(qs) == 0 {
		return out, qfree
	}
	// candidate index terms: ground, non-constant, of the bound variable's sort, used as a read
	// index or as an addend of one
	cand := map[int]*Term{}
	seen := map[int]bool{}
	add := func(t *Term) {
		if t.open || t.S.Kind != KBV {
			return
		}
		if t.IsConst() && !(t.S.W == 32 && t.V>>16 == 0x0800) {
			return // constants only when they name ghost snapshot objects (frame axioms range over references)
		}
		cand[t.id] = t
	}
	var walk func(t *Term)
	walk = func(t *Term) {
		if seen[t.id] {
			return
		}
		seen[t.id] = true
		if t.Op == "select" {
			i := t.Args[1]
			add(i)
			// leaves of the index sum, alone and with the sum's constant
			var leaves []*Term
			k := uint64(0)
			var fl func(x *Term)
			fl = func(x *Term) {
				switch {
				case x.Op == "bvadd":
					fl(x.Args[0])
					fl(x.Args[1])
				case x.IsConst():
					k += x.V
				default:
					leaves = append(leaves, x)
				}
			}
			if i.Op == "bvadd" && !i.open {
				fl(i)
				for _, x := range leaves {
					add(x)
					if k != 0 {
						add(c.BVAdd(x, c.Const(k, x.S.W)))
					}
				}
			}
		}
		for _, a := range t.Args {
			walk(a)
		}
	}
	for _, a := range asserts {
		walk(a)
	}
	var cs []*Term
	for _, t := range cand {
		cs = append(cs, t)
	}
	// small terms first (variables, then variable+constant), ties by creation order: deterministic
	size := func(t *Term) int {
		switch {
		case len(t.Args) == 0:
			return 0
		case t.Op == "bvadd" && t.Args[1].IsConst() && len(t.Args[0].Args) == 0:
			return 1
		}
		return 2 + len(t.Args)
	}
	sort.Slice(cs, func(i, j int) bool {
		if si, sj := size(cs[i]), size(cs[j]); si != sj {
			return si < sj
		}
		return cs[i].id < cs[j].id
	})
	cs = append(append([]*Term{}, sks...), cs...)
	// ground reads per array term: index terms to match quantifier bodies against
	reads := map[int][]*Term{}
	{
		seenR := map[int]bool{}
		var wr func(t *Term)
		wr = func(t *Term) {
			if seenR[t.id] {
				return
			}
			seenR[t.id] = true
			if t.Op == "select" && !t.open && !t.Args[1].IsConst() {
				reads[t.Args[0].id] = append(reads[t.Args[0].id], t.Args[1])
			}
			for _, a := range t.Args {
				wr(a)
			}
		}
		for _, a := range asserts {
			wr(a)
		}
	}
	for _, qq := range qs {
		v := qq.t.Bound[0]
		// matching: the body reads A[base + v] and the problem reads A[idx] for the same array term
		// A: instantiate at idx - base (what E-matching with arithmetic would find)
		var matched []*Term
		{
			seenM := map[int]bool{}
			seenB := map[int]bool{}
			var wb func(t *Term)
			wb = func(t *Term) {
				if seenB[t.id] || !t.open {
					return
				}
				seenB[t.id] = true
				if t.Op == "select" && !t.Args[0].open && len(reads[t.Args[0].id]) > 0 {
					idx := t.Args[1]
					if idx.S != v.S {
						for _, a := range t.Args {
							wb(a)
						}
						return
					}
					base := c.BVSub(idx, v) // ground iff v occurs exactly once with coefficient 1
					if !base.open {
						for _, gi := range reads[t.Args[0].id] {
							if gi.S != v.S {
								continue
							}
							cand := c.BVSub(gi, base)
							if !cand.open && !seenM[cand.id] && len(matched) < maxPerQuant {
								seenM[cand.id] = true
								matched = append(matched, cand)
							}
						}
					}
				}
				for _, a := range t.Args {
					wb(a)
				}
			}
			wb(qq.t.Args[0])
		}
		n := 0
		for _, t := range append(append([]*Term{}, matched...), cs...) {
			if t.S != v.S {
				continue
			}
			if n >= maxPerQuant {
				break
			}
			n++
			inst := c.Subst(qq.t.Args[0], map[*Term]*Term{v: t})
			if qq.neg {
				inst = c.Not(inst)
			}
			if qq.t.Name == "range" {
				w := v.S.W
				inst = c.Or(c.Not(c.And(c.Sle(c.Const(uint64(int64(qq.t.I1)), w), t), c.Slt(t, c.Const(uint64(int64(qq.t.I2)), w)))), inst)
			}
			if !inst.IsTrue() {
				out = append(out, guarded(qq.g, inst))
			}
		}
	}
	return out, qfree
}

// HasQuant reports whether any of ts contains a quantifier other than a constant-range one (those
// are handled by expansion).
func HasQuant(ts ...*Term) bool {
	seen := map[int]bool{}
	var rec func(t *Term) bool
	rec = func(t *Term) bool {
		if seen[t.id] {
			return false
		}
		seen[t.id] = true
		if (t.Op == "forall" || t.Op == "exists") && t.Name != "range" {
			return true
		}
		for _, a := range t.Args {
			if rec(a) {
				return true
			}
		}
		return false
	}
	for _, t := range ts {
		if rec(t) {
			return true
		}
	}
	return false
}

// SmallAsserts keeps the assertions whose term DAG has at most maxNodes nodes and no quantifier,
// plus the last one (the negated goal). The result is a subset of the problem.
func SmallAsserts(asserts []*Term, maxNodes int) []*Term {
	size := func(t *Term) int {
		seen := map[int]bool{}
		n := 0
		var rec func(t *Term) bool
		rec = func(t *Term) bool {
			if seen[t.id] {
				return true
			}
			seen[t.id] = true
			n++
			if n > maxNodes || t.Op == "forall" || t.Op == "exists" || t.Op == "lambda" {
				n = maxNodes + 1
				return false
			}
			for _, a := range t.Args {
				if !rec(a) {
					return false
				}
			}
			return true
		}
		rec(t)
		return n
	}
	var out []*Term
	for i, a := range asserts {
		if i == len(asserts)-1 || size(a) <= maxNodes {
			out = append(out, a)
		}
	}
	return out
}

// HasLambda reports whether t contains a lambda (array comprehension) term.
func HasLambda(t *Term) bool {
	seen := map[int]bool{}
	var rec func(t *Term) bool
	rec = func(t *Term) bool {
		if seen[t.id] {
			return false
		}
		seen[t.id] = true
		if t.Op == "lambda" {
			return true
		}
		for _, a := range t.Args {
			if rec(a) {
				return true
			}
		}
		return false
	}
	return rec(t)
}
