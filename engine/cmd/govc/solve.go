package main

import (
	"runtime"
	"strconv"
	"fmt"
	"os"
	"sort"
	"strings"
	"sync"
	"sync/atomic"
	"time"

	"govc/smt"
	"govc/vc"
)

// outcome of proving one instance (assumptions ∧ ¬goal unsatisfiable?)
type outcome struct {
	verdict smt.Verdict
	solver  string
	raw     string
	values  []uint64
	has     []bool
	script  string
}

// Concurrency follows the processors actually available (affinity included): each race runs
// three to five solver processes, and oversubscribing a small machine turns slow into "unknown".
var crossCheck bool // thorough tier
var crossMu sync.Mutex
var crossStats = map[string]int{}

var solverSem = make(chan struct{}, scaled(10)) // bounds concurrently running solver races
var caseSem = make(chan struct{}, scaled(12))

func scaled(at16 int) int {
	n := at16 * runtime.NumCPU() / 16
	if n < 2 {
		n = 2
	}
	if n > at16 {
		n = at16
	}
	return n
}

// runQuery races the back ends on one script.
func runQuery(L *Loaded, asserts []*smt.Term, gets []*smt.Term, timeout, seed int) outcome {
	X := L.Engine.X
	scriptMu.Lock()
	var weak *smt.Script
	if os.Getenv("GOVC_NOHINTS") == "" {
		// The instances never enter the main script (they slow the solvers down on problems with many
		// quantified hypotheses); they form a separate quantifier-free script raced beside it.
		if smt.HasQuant(asserts...) {
			extra, qfree := X.InstantiateHints(asserts, 8)
			if len(extra) > 0 && len(extra) <= 200 {
				// lambda terms make the solvers give up ("unknown") even where they are irrelevant:
				// the weakening keeps only lambda-free hypotheses and instances
				var ws []*smt.Term
				for _, t := range append(append([]*smt.Term{}, qfree...), extra...) {
					if !smt.HasLambda(t) {
						ws = append(ws, t)
					}
				}
				weak = X.Script(ws, nil, "ALL", true)
			}
		}
	}
	sc := X.Script(asserts, gets, "ALL", true)
	abs := X.ScriptAbstract(asserts)
	var light *smt.Script
	if len(sc.Text) > 60000 && os.Getenv("GOVC_NOHINTS") == "" {
		mx := 120
		if v, err := strconv.Atoi(os.Getenv("GOVC_LIGHT")); err == nil && v > 0 {
			mx = v
		}
		if sm := smt.SmallAsserts(asserts, mx); len(sm) < len(asserts) {
			light = X.Script(sm, nil, "ALL", true)
		}
	}
	scriptMu.Unlock()
	if d := os.Getenv("GOVC_KEEPWEAK"); d != "" && weak != nil {
		os.MkdirAll(d, 0o755)
		os.WriteFile(fmt.Sprintf("%s/weak%d.smt2", d, time.Now().UnixNano()), []byte(weak.Text), 0o644)
	}
	solverSem <- struct{}{}
	res, err := smt.SolveWithAbstraction(sc, abs, weak, light, len(gets), timeout, seed, os.Getenv("GOVC_SOLVER"))
	if err == nil && crossCheck && res.Verdict == smt.Unsat && res.Seconds <= 5 {
		// thorough tier: every back end runs the full script to completion (bounded at 30 s; queries
		// whose first answer already took longer than 20 s are not repeated); a second independent
		// "unsat" is recorded, a "sat" against the winner's "unsat" is noted
		t := 10
		agree, sat := 0, 0
		for _, r := range smt.SolveAll(sc, 0, t, seed) {
			switch r.Verdict {
			case smt.Unsat:
				agree++
			case smt.Sat:
				sat++
			}
		}
		crossMu.Lock()
		crossStats["queries"]++
		if agree >= 2 {
			crossStats["confirmed_by_two_or_more_solvers"]++
		}
		if agree >= 3 {
			crossStats["confirmed_by_all_three"]++
		}
		if sat > 0 {
			crossStats["disagreements"]++
		}
		crossMu.Unlock()
	}
	<-solverSem
	if err != nil {
		return outcome{verdict: smt.Unknown, raw: err.Error(), solver: "error"}
	}
	return outcome{res.Verdict, res.Solver, res.Raw, res.Values, res.HasVal, sc.Text}
}

// proveInstance: range quantifiers are first left to the solvers (one generic index instead of
// hi-lo instances); if that is not "unsat" they are expanded, and a wide expanded goal is proved
// in chunks of conjuncts. The expanded form also yields models.
func proveInstance(L *Loaded, base []*smt.Term, goal *smt.Term, gets []*smt.Term, timeout, seed int) outcome {
	X := L.Engine.X
	scriptMu.Lock()
	quant := smt.HasRangeQuant(append(append([]*smt.Term{}, base...), goal)...)
	neg := X.Not(goal)
	scriptMu.Unlock()
	if !quant || os.Getenv("GOVC_EXPAND") != "" {
		return proveWide(L, base, goal, gets, timeout, seed)
	}
	t1 := timeout * 2 / 3
	o := runQuery(L, append(append([]*smt.Term{}, base...), neg), gets, t1, seed)
	if o.verdict == smt.Unsat {
		return o
	}
	scriptMu.Lock()
	eb := make([]*smt.Term, len(base))
	for i, a := range base {
		eb[i] = X.ExpandRanges(a)
	}
	eg := X.ExpandRanges(goal)
	scriptMu.Unlock()
	o2 := proveWide(L, eb, eg, gets, timeout, seed)
	if o2.verdict == smt.Unknown {
		o2.raw = "quantified: " + o.raw + " | expanded: " + o2.raw
	}
	return o2
}

func proveWide(L *Loaded, base []*smt.Term, goal *smt.Term, gets []*smt.Term, timeout, seed int) outcome {
	X := L.Engine.X
	var cs []*smt.Term
	if os.Getenv("GOVC_NOCHUNK") == "" {
		scriptMu.Lock()
		cs = L.Engine.WideConjuncts(goal)
		scriptMu.Unlock()
	}
	if len(cs) < 24 {
		scriptMu.Lock()
		neg := X.Not(goal)
		scriptMu.Unlock()
		return runQuery(L, append(append([]*smt.Term{}, base...), neg), gets, timeout, seed)
	}
	const chunk = 12
	var groups [][]*smt.Term
	for i := 0; i < len(cs); i += chunk {
		j := i + chunk
		if j > len(cs) {
			j = len(cs)
		}
		scriptMu.Lock()
		neg := X.Not(X.And(cs[i:j]...))
		scriptMu.Unlock()
		groups = append(groups, append(append([]*smt.Term{}, base...), neg))
	}
	outs := make([]outcome, len(groups))
	var wg sync.WaitGroup
	for i := range groups {
		i := i
		wg.Add(1)
		go func() {
			defer wg.Done()
			outs[i] = runQuery(L, groups[i], gets, timeout, seed)
		}()
	}
	wg.Wait()
	return combine(outs, func(i int) string { return fmt.Sprintf("conjuncts %d..%d", i*chunk, i*chunk+chunk-1) }, "chunks")
}

// combine: all unsat => unsat; a definite counterexample is preferred over an undecided part.
func combine(outs []outcome, label func(int) string, what string) outcome {
	solvers := map[string]bool{}
	var bad *outcome
	for i := range outs {
		o := outs[i]
		solvers[o.solver] = true
		if o.verdict != smt.Unsat {
			if bad == nil || bad.verdict != smt.Sat && o.verdict == smt.Sat {
				oo := o
				oo.raw = label(i) + ": " + o.raw
				bad = &oo
			}
		}
	}
	if bad != nil {
		return *bad
	}
	var ss []string
	for s := range solvers {
		ss = append(ss, s)
	}
	sort.Strings(ss)
	return outcome{verdict: smt.Unsat, solver: strings.Join(ss, "+") + fmt.Sprintf(" (%d %s)", len(outs), what)}
}

type caseInst struct {
	label string
	subst map[*smt.Term]*smt.Term
	extra []*smt.Term // additional asserted facts (coverage query uses a negated range instead of a goal)
	cover bool
}

// solveOne discharges one obligation; see proveInstance. Obligations with a loop-variable split are
// proved case by case; hard obligations of functions with a "cases" clause are retried per case.
func solveOne(L *Loaded, rep *vc.FuncReport, ob *vc.Obligation, timeout, seed int, extra []*smt.Term) {
	if ob.Verdict == "trivial" {
		ob.Verdict = "unsat"
		ob.Solver = "simplifier"
		return
	}
	X := L.Engine.X
	t0 := time.Now()
	var gets []*smt.Term
	for _, o := range rep.Observe {
		gets = append(gets, o.T)
	}
	base := append([]*smt.Term{}, rep.Assumptions[:ob.NAssume]...)
	base = append(base, ob.PC)
	finish := func(o outcome) {
		if o.verdict == smt.Sat && ob.Prefer != nil {
			// look for a counterexample in which the violation is observable (e.g. a stray write
			// that actually changes the byte); keep the first model if there is none
			scriptMu.Lock()
			as := append(append([]*smt.Term{}, base...), X.Not(ob.Goal), ob.Prefer)
			scriptMu.Unlock()
			if o2 := runQuery(L, as, gets, 10, seed); o2.verdict == smt.Sat {
				o = o2
			}
		}
		ob.Verdict = o.verdict.String()
		ob.Solver = o.solver
		ob.Raw = o.raw
		ob.Seconds = time.Since(t0).Seconds()
		ob.Model = nil
		if o.verdict == smt.Sat {
			ob.Model = map[string]uint64{}
			for i, ov := range rep.Observe {
				if i < len(o.has) && o.has[i] {
					ob.Model[ov.Name] = o.values[i]
				}
			}
		}
		if os.Getenv("GOVC_KEEP") != "" && o.verdict != smt.Unsat && o.script != "" {
			os.MkdirAll(os.Getenv("GOVC_KEEP"), 0o755)
			fn := strings.NewReplacer("/", "_", "#", "_", ":", "_", " ", "_", "*", "", "(", "", ")", "", "…", "").Replace(ob.Name)
			if len(fn) > 120 {
				fn = fn[len(fn)-120:]
			}
			os.WriteFile(os.Getenv("GOVC_KEEP")+"/"+fn+".smt2", []byte(o.script), 0o644)
		}
	}
	runCases := func(cases []caseInst, what string) outcome {
		outs := make([]outcome, len(cases))
		var wg sync.WaitGroup
		var stop int32
		for i := range cases {
			i := i
			wg.Add(1)
			go func() {
				defer wg.Done()
				caseSem <- struct{}{}
				defer func() { <-caseSem }()
				if atomic.LoadInt32(&stop) != 0 {
					outs[i] = outcome{verdict: smt.Unsat, solver: "skipped"} // another case already failed
					return
				}
				defer func() {
					if outs[i].verdict != smt.Unsat {
						atomic.StoreInt32(&stop, 1)
					}
				}()
				ci := cases[i]
				scriptMu.Lock()
				var as []*smt.Term
				for _, a := range base {
					as = append(as, X.Subst(a, ci.subst))
				}
				g := X.Subst(ob.Goal, ci.subst)
				as = append(as, ci.extra...)
				// the observed input terms are instantiated too, so that a model describes the case's input
				cgets := make([]*smt.Term, len(gets))
				for k, gt := range gets {
					cgets[k] = X.Subst(gt, ci.subst)
				}
				scriptMu.Unlock()
				if ci.cover {
					outs[i] = runQuery(L, as, cgets, timeout, seed)
					return
				}
				outs[i] = proveInstance(L, as, g, cgets, timeout, seed)
			}()
		}
		wg.Wait()
		return combine(outs, func(i int) string { return "case " + cases[i].label }, what)
	}
	if ob.Split != nil {
		sp := ob.Split
		w := sp.Var.S.W
		scriptMu.Lock()
		inRange := X.And(X.Sle(X.Const(uint64(int64(sp.Lo)), w), sp.Var), X.Slt(sp.Var, X.Const(uint64(int64(sp.Hi)), w)))
		cases := []caseInst{{label: "coverage", extra: []*smt.Term{X.Not(inRange)}, cover: true}}
		for k := sp.Lo; k < sp.Hi; k++ {
			cases = append(cases, caseInst{label: fmt.Sprintf("%s=%d", sp.Var.Name, k), subst: map[*smt.Term]*smt.Term{sp.Var: X.Const(uint64(int64(k)), w)}})
		}
		scriptMu.Unlock()
		finish(runCases(cases, "cases"))
		return
	}
	if len(rep.Cases) == 0 {
		finish(proveInstance(L, base, ob.Goal, gets, timeout, seed))
		return
	}
	// quick direct attempt first; enumerate the case bits only for obligations that resist
	quick := 6
	if quick > timeout {
		quick = timeout
	}
	scriptMu.Lock()
	neg := X.Not(ob.Goal)
	scriptMu.Unlock()
	o := runQuery(L, append(append([]*smt.Term{}, base...), neg), gets, quick, seed)
	if o.verdict != smt.Unknown {
		finish(o)
		return
	}
	// a short expanded attempt finds counterexamples of genuinely failing obligations cheaply
	scriptMu.Lock()
	quant := smt.HasRangeQuant(append(append([]*smt.Term{}, base...), ob.Goal)...)
	scriptMu.Unlock()
	if quant {
		scriptMu.Lock()
		eb := make([]*smt.Term, len(base))
		for i, a := range base {
			eb[i] = X.ExpandRanges(a)
		}
		eneg := X.Not(X.ExpandRanges(ob.Goal))
		scriptMu.Unlock()
		o = runQuery(L, append(eb, eneg), gets, quick+4, seed)
		if o.verdict != smt.Unknown {
			finish(o)
			return
		}
	}
	var cases []caseInst
	cases = append(cases, caseInst{label: "", subst: map[*smt.Term]*smt.Term{}})
	scriptMu.Lock()
	for _, cb := range rep.Cases {
		var bitsIdx []int
		for b := 0; b < cb.Term.S.W; b++ {
			if cb.Mask>>uint(b)&1 == 1 {
				bitsIdx = append(bitsIdx, b)
			}
		}
		if len(bitsIdx) > 8 {
			continue
		}
		var next []caseInst
		for _, c0 := range cases {
			for v := 0; v < 1<<uint(len(bitsIdx)); v++ {
				var k uint64
				for i, b := range bitsIdx {
					if v>>uint(i)&1 == 1 {
						k |= 1 << uint(b)
					}
				}
				m := map[*smt.Term]*smt.Term{}
				for a, b := range c0.subst {
					m[a] = b
				}
				w := cb.Term.S.W
				m[cb.Term] = X.BVOr(X.BVAnd(cb.Term, X.Const(^cb.Mask, w)), X.Const(k, w))
				// the unsubstituted byte (still reachable through reads at symbolic indices) agrees with the case
				ex := append(append([]*smt.Term{}, c0.extra...), X.Eq(X.BVAnd(cb.Term, X.Const(cb.Mask, w)), X.Const(k, w)))
				next = append(next, caseInst{label: fmt.Sprintf("%s bits=%#x", c0.label, k), subst: m, extra: ex})
			}
		}
		cases = next
	}
	scriptMu.Unlock()
	finish(runCases(cases, "cases"))
}
