package main

import (
	"flag"
	"fmt"
	"os"
	"sort"
	"strings"
	"sync"
	"time"

	"govc/smt"
	"govc/vc"
)

func usage() {
	fmt.Fprintln(os.Stderr, `usage:
  govc check <property-id> [--tier quick|thorough]
  govc verify <name-substring> [-v]      (debug: verify matching functions, print obligations)
  govc list                               (functions under contract, by property)
  govc gen                                (print generated overlay files)
  govc replay <path>`)
	os.Exit(2)
}

func main() {
	if len(os.Args) < 2 {
		usage()
	}
	defer smt.Cleanup()
	switch os.Args[1] {
	case "check":
		exit(cmdCheck(os.Args[2:]))
	case "verify":
		exit(cmdVerify(os.Args[2:]))
	case "list":
		exit(cmdList())
	case "gen":
		L, err := Load()
		if L != nil {
			for p, s := range L.GenSrc {
				fmt.Printf("=== %s\n%s\n", p, s)
			}
		}
		if err != nil {
			fmt.Fprintln(os.Stderr, err)
			os.Exit(2)
		}
	case "replay":
		exit(cmdReplay(os.Args[2:]))
	default:
		usage()
	}
}

func cmdList() int {
	L, err := Load()
	if err != nil {
		fmt.Fprintln(os.Stderr, err)
		return 2
	}
	by := map[string][]string{}
	for _, fc := range L.Contracts {
		for _, p := range fc.C.Props {
			by[p] = append(by[p], fc.C.QName())
		}
	}
	var ps []string
	for p := range by {
		ps = append(ps, p)
	}
	sort.Strings(ps)
	for _, p := range ps {
		fmt.Printf("%s (%d)\n", p, len(by[p]))
		for _, f := range by[p] {
			fmt.Printf("  %s\n", f)
		}
	}
	return 0
}

type job struct {
	rep *vc.FuncReport
	ob  *vc.Obligation
}

func solveAll(L *Loaded, jobs []job, timeout, seed, workers int) {
	var wg sync.WaitGroup
	ch := make(chan job)
	var mu sync.Mutex
	_ = mu
	for w := 0; w < workers; w++ {
		wg.Add(1)
		go func() {
			defer wg.Done()
			for j := range ch {
				solveOneLocked(L, j, timeout, seed)
			}
		}()
	}
	for _, j := range jobs {
		ch <- j
	}
	close(ch)
	wg.Wait()
}

// Script construction walks the shared hash-cons table read-only; solver runs are the slow part.
var scriptMu sync.Mutex

func solveOneLocked(L *Loaded, j job, timeout, seed int) {
	solveOne(L, j.rep, j.ob, timeout, seed, nil)
}

func cmdVerify(args []string) int {
	fs := flag.NewFlagSet("verify", flag.ExitOnError)
	verbose := fs.Bool("v", false, "print every obligation")
	timeout := fs.Int("t", 30, "timeout per obligation (s)")
	var pats []string
	for len(args) > 0 && !strings.HasPrefix(args[0], "-") {
		pats = append(pats, args[0])
		args = args[1:]
	}
	fs.Parse(args)
	t0 := time.Now()
	L, err := Load()
	if err != nil {
		fmt.Fprintln(os.Stderr, err)
		return 2
	}
	fmt.Printf("loaded in %.1fs, %d contracts\n", time.Since(t0).Seconds(), len(L.Contracts))
	bad := 0
	for _, fc := range L.Contracts {
		match := len(pats) == 0
		for _, p := range pats {
			if strings.Contains(fc.C.QName(), p) {
				match = true
			}
		}
		if !match {
			continue
		}
		for _, rep := range L.Engine.Verify(fc) {
			t1 := time.Now()
			name := rep.Name
			if rep.Path != "" {
				name += "@" + rep.Path
			}
			if rep.Err != "" {
				fmt.Printf("%-50s OUT OF REACH: %s\n", name, rep.Err)
				bad++
				continue
			}
			var jobs []job
			for _, ob := range rep.Obls {
				jobs = append(jobs, job{rep, ob})
			}
			solveAll(L, jobs, *timeout, 0, 8)
			n, ok := 0, 0
			for _, ob := range rep.Obls {
				n++
				if ob.Verdict == "unsat" {
					ok++
				}
			}
			fmt.Printf("%-50s %d/%d discharged  (%.2fs)\n", name, ok, n, time.Since(t1).Seconds())
			for _, ob := range rep.Obls {
				if ob.Verdict != "unsat" || *verbose {
					fmt.Printf("    %-8s %-10s %6.2fs  %s  [%s]\n", ob.Verdict, ob.Solver, ob.Seconds, ob.Name, ob.Pos)
					if ob.Verdict == "sat" {
						fmt.Printf("             model: %s\n", modelString(rep, ob))
					} else if ob.Verdict != "unsat" {
						r := strings.ReplaceAll(ob.Raw, "\n", " | ")
						if len(r) > 300 {
							r = r[:300]
						}
						fmt.Printf("             %s\n", r)
					}
				}
				if ob.Verdict != "unsat" {
					bad++
				}
			}
		}
	}
	if bad > 0 {
		return 1
	}
	return 0
}

func modelString(rep *vc.FuncReport, ob *vc.Obligation) string {
	var parts []string
	for _, p := range rep.Params {
		switch p.Kind {
		case "int", "bool":
			parts = append(parts, fmt.Sprintf("%s=%#x", p.Name, ob.Model[p.Name]))
		case "bytearray":
			var b []string
			for k := 0; k < p.Len && k < 24; k++ {
				b = append(b, fmt.Sprintf("%02x", ob.Model[fmt.Sprintf("%s[%d]", p.Name, k)]))
			}
			parts = append(parts, fmt.Sprintf("%s=[%s…]", p.Name, strings.Join(b, " ")))
		case "byteslice":
			ln := ob.Model[p.Name+".len"]
			var b []string
			for k := 0; k < p.Len && uint64(k) < ln && k < 24; k++ {
				b = append(b, fmt.Sprintf("%02x", ob.Model[fmt.Sprintf("%s[%d]", p.Name, k)]))
			}
			parts = append(parts, fmt.Sprintf("%s=len %d ref %#x [%s]", p.Name, ln, ob.Model[p.Name+".ref"], strings.Join(b, " ")))
		case "struct":
			var fs []string
			var keys []string
			for k := range ob.Model {
				if strings.HasPrefix(k, p.Name+".") || strings.HasPrefix(k, p.Name+"(") {
					keys = append(keys, k)
				}
			}
			sort.Strings(keys)
			for _, k := range keys {
				if ob.Model[k] != 0 {
					fs = append(fs, fmt.Sprintf("%s=%#x", strings.TrimPrefix(k, p.Name), ob.Model[k]))
				}
			}
			parts = append(parts, fmt.Sprintf("%s={%s}", p.Name, strings.Join(fs, " ")))
		default:
			parts = append(parts, p.Name+"=?")
		}
	}
	return strings.Join(parts, " ")
}

// exit removes the scratch directory of the SMT scripts before leaving (os.Exit skips deferred calls).
func exit(code int) {
	smt.Cleanup()
	os.Exit(code)
}
