package main

import (
	"flag"
	"fmt"
	"os"
	"sort"
	"strings"
	"sync"
	"time"

	"govc/smt"
	"govc/vc"
)

func usage() {
	fmt.Fprintln(os.Stderr, `usage:
  govc check <property-id> [--tier quick|thorough]
  govc verify <name-substring> [-v]      (debug: verify matching functions, print obligations)
  govc list                               (functions under contract, by property)
  govc gen                                (print generated overlay files)
  govc replay <path>`)
	os.Exit(2)
}

func main() {
	if len(os.Args) < 2 {
		usage()
	}
	defer smt.Cleanup()
	switch os.Args[1] {
	case "check":
		os.Exit(cmdCheck(os.Args[2:]))
	case "verify":
		os.Exit(cmdVerify(os.Args[2:]))
	case "list":
		os.Exit(cmdList())
	case "gen":
		L, err := Load()
		if L != nil {
			for p, s := range L.GenSrc {
				fmt.Printf("=== %s\n%s\n", p, s)
			}
		}
		if err != nil {
			fmt.Fprintln(os.Stderr, err)
			os.Exit(2)
		}
	case "replay":
		os.Exit(cmdReplay(os.Args[2:]))
	default:
		usage()
	}
}

func cmdList() int {
	L, err := Load()
	if err != nil {
		fmt.Fprintln(os.Stderr, err)
		return 2
	}
	by := map[string][]string{}
	for _, fc := range L.Contracts {
		for _, p := range fc.C.Props {
			by[p] = append(by[p], fc.C.QName())
		}
	}
	var ps []string
	for p := range by {
		ps = append(ps, p)
	}
	sort.Strings(ps)
	for _, p := range ps {
		fmt.Printf("%s (%d)\n", p, len(by[p]))
		for _, f := range by[p] {
			fmt.Printf("  %s\n", f)
		}
	}
	return 0
}

// solveOne discharges one obligation.
func solveOne(L *Loaded, rep *vc.FuncReport, ob *vc.Obligation, timeout, seed int, extra []*smt.Term) {
	if ob.Verdict == "trivial" {
		ob.Verdict = "unsat"
		ob.Solver = "simplifier"
		return
	}
	X := L.Engine.X
	if ob.Split != nil && extra == nil {
		solveSplit(L, rep, ob, timeout, seed)
		return
	}
	if extra == nil && os.Getenv("GOVC_NOCHUNK") == "" {
		scriptMu.Lock()
		cs := L.Engine.WideConjuncts(ob.Goal)
		scriptMu.Unlock()
		if len(cs) >= 24 {
			solveChunks(L, rep, ob, cs, timeout, seed)
			return
		}
	}
	scriptMu.Lock()
	asserts := append([]*smt.Term{}, rep.Assumptions[:ob.NAssume]...)
	asserts = append(asserts, extra...)
	asserts = append(asserts, ob.PC, X.Not(ob.Goal))
	var gets []*smt.Term
	for _, o := range rep.Observe {
		gets = append(gets, o.T)
	}
	sc := X.Script(asserts, gets, "ALL", true)
	abs := X.ScriptAbstract(asserts)
	scriptMu.Unlock()
	res, err := smt.SolveWithAbstraction(sc, abs, len(gets), timeout, seed, os.Getenv("GOVC_SOLVER"))
	if err != nil {
		ob.Verdict = "error"
		ob.Raw = err.Error()
		return
	}
	ob.Verdict = res.Verdict.String()
	ob.Solver = res.Solver
	ob.Seconds = res.Seconds
	ob.Raw = res.Raw
	if res.Verdict == smt.Sat {
		ob.Model = map[string]uint64{}
		for i, o := range rep.Observe {
			if i < len(res.HasVal) && res.HasVal[i] {
				ob.Model[o.Name] = res.Values[i]
			}
		}
	}
	if os.Getenv("GOVC_KEEP") != "" && res.Verdict != smt.Unsat {
		os.MkdirAll(os.Getenv("GOVC_KEEP"), 0o755)
		fn := strings.NewReplacer("/", "_", "#", "_", ":", "_", " ", "_", "*", "", "(", "", ")", "", "…", "").Replace(ob.Name)
		if len(fn) > 120 {
			fn = fn[:120]
		}
		os.WriteFile(os.Getenv("GOVC_KEEP")+"/"+fn+".smt2", []byte(sc.Text), 0o644)
	}
}

type job struct {
	rep *vc.FuncReport
	ob  *vc.Obligation
}

func solveAll(L *Loaded, jobs []job, timeout, seed, workers int) {
	var wg sync.WaitGroup
	ch := make(chan job)
	var mu sync.Mutex
	_ = mu
	for w := 0; w < workers; w++ {
		wg.Add(1)
		go func() {
			defer wg.Done()
			for j := range ch {
				solveOneLocked(L, j, timeout, seed)
			}
		}()
	}
	for _, j := range jobs {
		ch <- j
	}
	close(ch)
	wg.Wait()
}

// Script construction walks the shared hash-cons table read-only; solver runs are the slow part.
var scriptMu sync.Mutex

func solveOneLocked(L *Loaded, j job, timeout, seed int) {
	solveOne(L, j.rep, j.ob, timeout, seed, nil)
}

func cmdVerify(args []string) int {
	fs := flag.NewFlagSet("verify", flag.ExitOnError)
	verbose := fs.Bool("v", false, "print every obligation")
	timeout := fs.Int("t", 30, "timeout per obligation (s)")
	var pats []string
	for len(args) > 0 && !strings.HasPrefix(args[0], "-") {
		pats = append(pats, args[0])
		args = args[1:]
	}
	fs.Parse(args)
	t0 := time.Now()
	L, err := Load()
	if err != nil {
		fmt.Fprintln(os.Stderr, err)
		return 2
	}
	fmt.Printf("loaded in %.1fs, %d contracts\n", time.Since(t0).Seconds(), len(L.Contracts))
	bad := 0
	for _, fc := range L.Contracts {
		match := len(pats) == 0
		for _, p := range pats {
			if strings.Contains(fc.C.QName(), p) {
				match = true
			}
		}
		if !match {
			continue
		}
		for _, rep := range L.Engine.Verify(fc) {
			t1 := time.Now()
			name := rep.Name
			if rep.Path != "" {
				name += "@" + strings.TrimPrefix(rep.Path, ".")
			}
			if rep.Err != "" {
				fmt.Printf("%-50s OUT OF REACH: %s\n", name, rep.Err)
				bad++
				continue
			}
			var jobs []job
			for _, ob := range rep.Obls {
				jobs = append(jobs, job{rep, ob})
			}
			solveAll(L, jobs, *timeout, 0, 8)
			n, ok := 0, 0
			for _, ob := range rep.Obls {
				n++
				if ob.Verdict == "unsat" {
					ok++
				}
			}
			fmt.Printf("%-50s %d/%d discharged  (%.2fs)\n", name, ok, n, time.Since(t1).Seconds())
			for _, ob := range rep.Obls {
				if ob.Verdict != "unsat" || *verbose {
					fmt.Printf("    %-8s %-10s %6.2fs  %s  [%s]\n", ob.Verdict, ob.Solver, ob.Seconds, ob.Name, ob.Pos)
					if ob.Verdict == "sat" {
						fmt.Printf("             model: %s\n", modelString(rep, ob))
					} else if ob.Verdict != "unsat" {
						r := strings.ReplaceAll(ob.Raw, "\n", " | ")
						if len(r) > 300 {
							r = r[:300]
						}
						fmt.Printf("             %s\n", r)
					}
				}
				if ob.Verdict != "unsat" {
					bad++
				}
			}
		}
	}
	if bad > 0 {
		return 1
	}
	return 0
}

func modelString(rep *vc.FuncReport, ob *vc.Obligation) string {
	var parts []string
	for _, p := range rep.Params {
		switch p.Kind {
		case "int", "bool":
			parts = append(parts, fmt.Sprintf("%s=%#x", p.Name, ob.Model[p.Name]))
		case "bytearray":
			var b []string
			for k := 0; k < p.Len && k < 24; k++ {
				b = append(b, fmt.Sprintf("%02x", ob.Model[fmt.Sprintf("%s[%d]", p.Name, k)]))
			}
			parts = append(parts, fmt.Sprintf("%s=[%s…]", p.Name, strings.Join(b, " ")))
		case "byteslice":
			ln := ob.Model[p.Name+".len"]
			var b []string
			for k := 0; k < p.Len && uint64(k) < ln && k < 24; k++ {
				b = append(b, fmt.Sprintf("%02x", ob.Model[fmt.Sprintf("%s[%d]", p.Name, k)]))
			}
			parts = append(parts, fmt.Sprintf("%s=len %d ref %#x [%s]", p.Name, ln, ob.Model[p.Name+".ref"], strings.Join(b, " ")))
		default:
			parts = append(parts, p.Name+"=?")
		}
	}
	return strings.Join(parts, " ")
}

// solveSplit proves an obligation by exhaustive case analysis on a loop variable with a small
// constant range: one query per value with the value substituted (so spec functions fold), plus
// one query showing that the range covers every case.
func solveSplit(L *Loaded, rep *vc.FuncReport, ob *vc.Obligation, timeout, seed int) {
	X := L.Engine.X
	sp := ob.Split
	w := sp.Var.S.W
	type sub struct {
		asserts []*smt.Term
		label   string
	}
	var subs []sub
	scriptMu.Lock()
	base := append([]*smt.Term{}, rep.Assumptions[:ob.NAssume]...)
	// coverage: within the assumptions and path condition the variable lies in [Lo,Hi)
	inRange := X.And(X.Sle(X.Const(uint64(int64(sp.Lo)), w), sp.Var), X.Slt(sp.Var, X.Const(uint64(int64(sp.Hi)), w)))
	subs = append(subs, sub{append(append([]*smt.Term{}, base...), ob.PC, X.Not(inRange)), "coverage"})
	for k := sp.Lo; k < sp.Hi; k++ {
		m := map[*smt.Term]*smt.Term{sp.Var: X.Const(uint64(int64(k)), w)}
		var as []*smt.Term
		for _, a := range base {
			as = append(as, X.Subst(a, m))
		}
		as = append(as, X.Subst(ob.PC, m), X.Not(X.Subst(ob.Goal, m)))
		subs = append(subs, sub{as, fmt.Sprintf("%s=%d", sp.Var.Name, k)})
	}
	var gets []*smt.Term
	for _, o := range rep.Observe {
		gets = append(gets, o.T)
	}
	var scripts, absScripts []*smt.Script
	for _, s := range subs {
		scripts = append(scripts, X.Script(s.asserts, gets, "ALL", true))
		absScripts = append(absScripts, X.ScriptAbstract(s.asserts))
	}
	scriptMu.Unlock()
	ob.Verdict = "unsat"
	ob.Solver = ""
	solvers := map[string]bool{}
	results := make([]*smt.Result, len(scripts))
	errs := make([]error, len(scripts))
	var wg sync.WaitGroup
	sem := make(chan struct{}, 6)
	t0 := time.Now()
	for i := range scripts {
		i := i
		wg.Add(1)
		go func() {
			defer wg.Done()
			sem <- struct{}{}
			defer func() { <-sem }()
			results[i], errs[i] = smt.SolveWithAbstraction(scripts[i], absScripts[i], len(gets), timeout, seed, os.Getenv("GOVC_SOLVER"))
		}()
	}
	wg.Wait()
	ob.Seconds = time.Since(t0).Seconds()
	for i, res := range results {
		if errs[i] != nil {
			ob.Verdict, ob.Raw = "error", errs[i].Error()
			return
		}
		solvers[res.Solver] = true
		if res.Verdict != smt.Unsat {
			if os.Getenv("GOVC_KEEP") != "" {
				os.MkdirAll(os.Getenv("GOVC_KEEP"), 0o755)
				os.WriteFile(fmt.Sprintf("%s/split_%d.smt2", os.Getenv("GOVC_KEEP"), i), []byte(scripts[i].Text), 0o644)
			}
			ob.Verdict = res.Verdict.String()
			ob.Solver = res.Solver
			ob.Raw = "case " + subs[i].label + ": " + res.Raw
			if res.Verdict == smt.Sat {
				ob.Model = map[string]uint64{}
				for j, o := range rep.Observe {
					if j < len(res.HasVal) && res.HasVal[j] {
						ob.Model[o.Name] = res.Values[j]
					}
				}
			}
			return
		}
	}
	var ss []string
	for s := range solvers {
		ss = append(ss, s)
	}
	sort.Strings(ss)
	ob.Solver = strings.Join(ss, "+") + fmt.Sprintf(" (%d cases)", len(subs))
}

// solveChunks proves a wide conjunction (a 188-fold expanded forall) piecewise: the conjuncts are
// grouped and each group is a separate query; all must be unsat.
func solveChunks(L *Loaded, rep *vc.FuncReport, ob *vc.Obligation, cs []*smt.Term, timeout, seed int) {
	X := L.Engine.X
	const chunk = 12
	var scripts, absScripts []*smt.Script
	var gets []*smt.Term
	for _, o := range rep.Observe {
		gets = append(gets, o.T)
	}
	scriptMu.Lock()
	base := append([]*smt.Term{}, rep.Assumptions[:ob.NAssume]...)
	base = append(base, ob.PC)
	for i := 0; i < len(cs); i += chunk {
		j := i + chunk
		if j > len(cs) {
			j = len(cs)
		}
		as := append(append([]*smt.Term{}, base...), X.Not(X.And(cs[i:j]...)))
		scripts = append(scripts, X.Script(as, gets, "ALL", true))
		absScripts = append(absScripts, X.ScriptAbstract(as))
	}
	scriptMu.Unlock()
	results := make([]*smt.Result, len(scripts))
	errs := make([]error, len(scripts))
	var wg sync.WaitGroup
	sem := make(chan struct{}, 6)
	t0 := time.Now()
	for i := range scripts {
		i := i
		wg.Add(1)
		go func() {
			defer wg.Done()
			sem <- struct{}{}
			defer func() { <-sem }()
			results[i], errs[i] = smt.SolveWithAbstraction(scripts[i], absScripts[i], len(gets), timeout, seed, os.Getenv("GOVC_SOLVER"))
		}()
	}
	wg.Wait()
	ob.Seconds = time.Since(t0).Seconds()
	ob.Verdict = "unsat"
	solvers := map[string]bool{}
	for i, res := range results {
		if errs[i] != nil {
			ob.Verdict, ob.Raw = "error", errs[i].Error()
			return
		}
		solvers[res.Solver] = true
		if res.Verdict != smt.Unsat {
			// prefer reporting a definite counterexample over an undecided chunk
			if ob.Verdict == "sat" {
				continue
			}
			ob.Verdict = res.Verdict.String()
			ob.Solver = res.Solver
			ob.Raw = fmt.Sprintf("conjuncts %d..%d: %s", i*chunk, i*chunk+chunk-1, res.Raw)
			if res.Verdict == smt.Sat {
				ob.Model = map[string]uint64{}
				for j, o := range rep.Observe {
					if j < len(res.HasVal) && res.HasVal[j] {
						ob.Model[o.Name] = res.Values[j]
					}
				}
			}
		}
	}
	if ob.Verdict != "unsat" {
		return
	}
	var ss []string
	for s := range solvers {
		ss = append(ss, s)
	}
	sort.Strings(ss)
	ob.Solver = strings.Join(ss, "+") + fmt.Sprintf(" (%d chunks)", len(scripts))
}
