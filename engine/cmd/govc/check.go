package main

import (
	"encoding/json"
	"flag"
	"fmt"
	"os"
	"path/filepath"
	"sort"
	"strconv"
	"strings"
	"time"

	"govc/smt"
	"govc/vc"
)

func verifDir() string {
	if d := os.Getenv("GOVC_VERIF"); d != "" {
		return d
	}
	return "/verif"
}

type KnownFinding struct {
	Property   string `json:"property"`
	Obligation string `json:"obligation"` // exact obligation name, or prefix ending in '*'
	What       string `json:"what"`
	Witness    string `json:"witness,omitempty"`
}

type KnownFile struct {
	Findings []KnownFinding `json:"findings"`
	Fixed    []string       `json:"fixed"`
}

func loadKnown() *KnownFile {
	k := &KnownFile{}
	b, err := os.ReadFile(filepath.Join(verifDir(), "known_findings.json"))
	if err != nil {
		return k
	}
	json.Unmarshal(b, k)
	return k
}

func (k *KnownFile) match(prop, ob string) *KnownFinding {
	for i := range k.Findings {
		f := &k.Findings[i]
		if f.Property != prop {
			continue
		}
		if f.Obligation == ob {
			return f
		}
		if strings.Contains(f.Obligation, "*") {
			if globMatch(f.Obligation, ob) {
				return f
			}
		}
	}
	return nil
}

type sample struct {
	Obligation string  `json:"obligation"`
	Verdict    string  `json:"verdict"`
	Backend    string  `json:"backend"`
	Seconds    float64 `json:"seconds"`
}

func cmdCheck(args []string) int {
	if len(args) < 1 {
		usage()
	}
	prop := args[0]
	fs := flag.NewFlagSet("check", flag.ExitOnError)
	tier := fs.String("tier", "", "quick|thorough")
	fs.Parse(args[1:])
	if *tier == "" {
		*tier = os.Getenv("VERIF_TIER")
	}
	if *tier != "thorough" {
		*tier = "quick"
	}
	seed := 0
	if s := os.Getenv("VERIF_SEED"); s != "" {
		seed, _ = strconv.Atoi(s)
	}
	// Only an undecided obligation ever runs into the limit; a generous one costs nothing on a
	// tree where the property holds and keeps a loaded machine from turning "slow" into "unknown".
	timeout := 150
	if *tier == "thorough" {
		timeout = 400
		crossCheck = true
	}
	t0 := time.Now()
	evPath := filepath.Join(verifDir(), "evidence", prop+".json")
	os.MkdirAll(filepath.Dir(evPath), 0o755)
	os.Remove(evPath)
	broken := func(msg string) int {
		fmt.Printf("CHECK-BROKEN property=%s %s\n", prop, msg)
		return 2
	}
	L, err := Load()
	if err != nil {
		// the tree no longer loads with its contracts: contract drift or a change that does not compile
		rp := writeReplay(prop, "load", map[string]interface{}{"obligation": "load", "error": err.Error()})
		fmt.Printf("VIOLATION property=%s replay=%s no-failing-input-found\n", prop, rp)
		fmt.Println("  the repository no longer loads together with its contracts:", firstLine(err.Error()))
		writeEvidence(evPath, prop, *tier, seed, time.Since(t0).Seconds(), nil, nil, 1, nil, nil, []string{"load failed: " + err.Error()})
		return 1
	}
	var fcs []*vc.FnContract
	for _, fc := range L.Contracts {
		for _, p := range fc.C.Props {
			if p == prop && (os.Getenv("GOVC_ONLY") == "" || strings.Contains(fc.C.QName(), os.Getenv("GOVC_ONLY"))) {
				fcs = append(fcs, fc)
			}
		}
	}
	if len(fcs) == 0 {
		return broken("no function under contract carries this property")
	}
	known := loadKnown()
	var reps []*vc.FuncReport
	var jobs []job
	var outOfReach []string
	for _, fc := range fcs {
		for _, rep := range L.Engine.Verify(fc) {
			reps = append(reps, rep)
			if rep.Err != "" {
				outOfReach = append(outOfReach, rep.Name+": "+rep.Err)
				continue
			}
			for _, ob := range rep.Obls {
				jobs = append(jobs, job{rep, ob})
			}
		}
	}
	workers := scaled(8)
	if w := os.Getenv("GOVC_WORKERS"); w != "" {
		workers, _ = strconv.Atoi(w)
	}
	solveAll(L, jobs, timeout, seed, workers)
	// vacuity: preconditions satisfiable and exit reachable
	var vac []string
	feasible := map[string]bool{}
	vacuous := map[string]bool{}
	for _, rep := range reps {
		if rep.Err != "" || rep.Trusted {
			continue
		}
		if len(rep.Obls) == 0 && rep.Path == "" {
			return broken("function " + rep.Name + " produced no obligations")
		}
		v := checkVacuity(L, rep, seed)
		if v == "vacuous" {
			vacuous[rep.QName] = true
			if rep.Path == "" {
				return broken("contradictory assumptions in " + rep.Name + " (vacuity canary is unsat)")
			}
			vac = append(vac, rep.Name+"@"+rep.Path+": infeasible path")
			continue
		}
		feasible[rep.QName] = true
		vac = append(vac, rep.Name+rep.Path+": "+v)
	}
	for q := range vacuous {
		if !feasible[q] {
			return broken("contradictory assumptions in " + q + " (no feasible path)")
		}
	}
	violations := 0
	nObl, nDis := 0, 0
	byBackend := map[string]int{}
	solverS := 0.0
	var samples []sample
	var funcs []string
	var knownPrinted []string
	for _, rep := range reps {
		funcs = append(funcs, rep.Name)
		if rep.Err != "" {
			violations++
			rp := writeReplay(prop, rep.Name+"#reach", map[string]interface{}{"obligation": rep.Name + "#reach", "verifier_output": rep.Err,
				"note": "the function left the subset of Go the VC generator supports; its obligations, which discharged on the unchanged tree, can no longer be generated"})
			fmt.Printf("VIOLATION property=%s replay=%s no-failing-input-found\n", prop, rp)
			fmt.Printf("  %s\n", rep.Err)
			continue
		}
		for _, ob := range rep.Obls {
			nObl++
			solverS += ob.Seconds
			byBackend[ob.Solver]++
			if len(samples) < 400 {
				samples = append(samples, sample{ob.Name, ob.Verdict, ob.Solver, round3(ob.Seconds)})
			}
			if ob.Verdict == "unsat" {
				nDis++
				continue
			}
			if kf := known.match(prop, ob.Name); kf != nil {
				line := fmt.Sprintf("KNOWN-FINDING: property=%s %s [%s]", prop, kf.What, ob.Name)
				fmt.Println(line)
				knownPrinted = append(knownPrinted, line)
				nObl-- // a known finding is not counted as an obligation of the proof claim
				continue
			}
			violations++
			reportViolation(L, prop, rep, ob)
		}
	}
	sort.Strings(funcs)
	writeEvidence(evPath, prop, *tier, seed, time.Since(t0).Seconds(), funcs, samples, violations,
		map[string]interface{}{"obligations": nObl, "discharged": nDis, "by_backend": byBackend, "cross_check": crossSummary(), "solver_s": round3(solverS),
			"out_of_reach": outOfReach, "vacuity": vac, "known_findings": knownPrinted, "inlined": collectInlined(reps), "stdlib_inlined": collectStd(reps)}, L, nil)
	if violations > 0 {
		return 1
	}
	if n := crossSummary()["disagreements"]; n > 0 {
		// a solver answered "sat" where the winner answered "unsat" (with quantifiers or lambdas a
		// "sat" may be an incomplete solver's guess): recorded in the evidence, not an alarm
		fmt.Printf("NOTE property=%s cross-check: %d queries with a dissenting solver (see evidence cross_check)\n", prop, n)
	}
	fmt.Printf("OK property=%s functions=%d obligations=%d discharged=%d wall=%.1fs\n", prop, len(funcs), nObl, nDis, time.Since(t0).Seconds())
	return 0
}

func firstLine(s string) string {
	if i := strings.IndexByte(s, '\n'); i >= 0 {
		return s[:i]
	}
	return s
}

func round3(f float64) float64 { return float64(int(f*1000+0.5)) / 1000 }

func collectInlined(reps []*vc.FuncReport) []string {
	m := map[string]bool{}
	for _, r := range reps {
		for _, s := range r.Inlined {
			m[s] = true
		}
	}
	var out []string
	for k := range m {
		out = append(out, k)
	}
	sort.Strings(out)
	return out
}
func collectStd(reps []*vc.FuncReport) []string {
	m := map[string]bool{}
	for _, r := range reps {
		for _, s := range r.UsedStd {
			m[s] = true
		}
	}
	var out []string
	for k := range m {
		out = append(out, k)
	}
	sort.Strings(out)
	return out
}

// checkVacuity: the assumptions in force at the function's exit together with the exit path
// condition must be satisfiable, otherwise every obligation is discharged vacuously.
func checkVacuity(L *Loaded, rep *vc.FuncReport, seed int) string {
	X := L.Engine.X
	scriptMu.Lock()
	var asserts []*smt.Term
	for i, a := range rep.Assumptions {
		if !rep.GoalAssume[i] {
			asserts = append(asserts, a)
		}
	}
	if rep.ExitPC != nil {
		asserts = append(asserts, rep.ExitPC)
	}
	sc := X.Script(asserts, nil, "ALL", false)
	scriptMu.Unlock()
	res, err := smt.Solve(sc, 0, 10, seed, "")
	if err != nil {
		return "error"
	}
	switch res.Verdict {
	case smt.Sat:
		return "reachable"
	case smt.Unsat:
		// exit unreachable may be legitimate only if the function never returns; none of ours does that
		return "vacuous"
	}
	return "undecided(" + res.Solver + ")"
}

var trustedBase = []string{
	"go/packages, go/types and the go/ssa builder of golang.org/x/tools v0.29.0",
	"the govc SSA-to-SMT semantics in /verif/engine/vc (guarded by replay of every model on the real code, the simplifier cross-check test and the must-fail corpus)",
	"z3 4.8.12, z3 5.1.0 and cvc5 1.0 (raced per obligation)",
	"Go memory safety: references read from memory were allocated earlier; slice headers are consistent; int is 64 bits (GOARCH=amd64)",
	"package-level error variables are distinct non-nil values written only during package initialisation",
	"size assumptions: fewer than 2^27 allocations per call, slice lengths and capacities at most 2^40; inputs do not alias package-level objects; interface calls dispatch over the repository's implementations only (closed world)",
	"termination is proved for loops (variants) but not for recursion; concurrency is out of scope (the library is documented as not thread safe)",
}

func writeEvidence(path, prop, tier string, seed int, wall float64, funcs []string, samples []sample, violations int, cov map[string]interface{}, L *Loaded, extraAssume []string) {
	if cov == nil {
		cov = map[string]interface{}{"obligations": 0, "discharged": 0}
	}
	cov["checker_cmd"] = "bin/govc check " + prop + " --tier " + tier
	cov["trusted_base"] = trustedBase
	cov["functions_under_contract"] = funcs
	var ss []interface{}
	for _, s := range samples {
		ss = append(ss, s)
	}
	if len(ss) == 0 {
		ss = append(ss, "none")
	}
	cov["samples"] = ss
	cov["integer_model"] = "fixed-width bit-vectors (no mathematical integers)"
	assume := append([]string{}, trustedBase...)
	assume = append(assume, extraAssume...)
	if L != nil {
		for _, fc := range L.Contracts {
			if fc.C.Trusted {
				assume = append(assume, "trusted contract (body not verified): "+fc.C.QName())
			}
		}
	}
	ev := map[string]interface{}{
		"property_id": prop, "tier": tier, "seed": seed, "level": "proof", "coverage": cov,
		"assumptions": assume, "wall_s": round3(wall), "violations": violations,
	}
	b, _ := json.MarshalIndent(ev, "", " ")
	os.WriteFile(path, b, 0o644)
}

func writeReplay(prop, ob string, data map[string]interface{}) string {
	dir := filepath.Join(verifDir(), "replays", prop)
	os.MkdirAll(dir, 0o755)
	name := strings.NewReplacer("/", "_", "#", "_", ":", "_", " ", "_", "*", "", "(", "", ")", "", "…", "", "=", "", "&", "", "|", "", "<", "", ">", "", "!", "", ",", "", "\"", "", "'", "").Replace(ob)
	if len(name) > 100 {
		name = name[:100]
	}
	p := filepath.Join(dir, name+".json")
	data["property"] = prop
	b, _ := json.MarshalIndent(data, "", " ")
	os.WriteFile(p, b, 0o644)
	return p
}

func reportViolation(L *Loaded, prop string, rep *vc.FuncReport, ob *vc.Obligation) {
	data := map[string]interface{}{
		"obligation": ob.Name, "kind": ob.Kind, "function": rep.QName, "position": ob.Pos,
		"verdict": ob.Verdict, "solver": ob.Solver, "verifier_output": ob.Raw,
	}
	suffix := " no-failing-input-found"
	outcome := ""
	if ob.Verdict == "sat" && ob.Model != nil {
		data["model"] = ob.Model
		data["inputs"] = modelString(rep, ob)
		rr := runReplay(L, rep, ob)
		data["replay"] = rr
		outcome = rr.Outcome
		if rr.Outcome == "confirmed" {
			suffix = ""
		}
	}
	rp := writeReplay(prop, ob.Name, data)
	fmt.Printf("VIOLATION property=%s replay=%s%s\n", prop, rp, suffix)
	fmt.Printf("  obligation %s  [%s]  verdict=%s solver=%s\n", ob.Name, ob.Pos, ob.Verdict, ob.Solver)
	if ob.Verdict == "sat" {
		fmt.Printf("  counterexample: %s\n", modelString(rep, ob))
		fmt.Printf("  replay on the real code: %s\n", outcome)
	}
}

// globMatch: '*' matches any run of characters (including none); everything else is literal.
func globMatch(pat, s string) bool {
	parts := strings.Split(pat, "*")
	if !strings.HasPrefix(s, parts[0]) {
		return false
	}
	s = s[len(parts[0]):]
	for i := 1; i < len(parts); i++ {
		p := parts[i]
		if i == len(parts)-1 {
			return strings.HasSuffix(s, p)
		}
		k := strings.Index(s, p)
		if k < 0 {
			return false
		}
		s = s[k+len(p):]
	}
	return true
}

// crossSummary: thorough-tier cross-solver statistics (empty in the quick tier).
func crossSummary() map[string]int {
	crossMu.Lock()
	defer crossMu.Unlock()
	out := map[string]int{}
	for k, v := range crossStats {
		out[k] = v
	}
	return out
}
