package main

import (
	"bytes"
	"context"
	"encoding/json"
	"fmt"
	"os"
	"os/exec"
	"path/filepath"
	"strings"
	"time"

	"govc/contracts"
	"govc/vc"
)

type ReplayResult struct {
	Outcome string `json:"outcome"` // confirmed | not-reproduced | precondition-not-met | not-replayable | error
	Detail  string `json:"detail"`
	Test    string `json:"test_source,omitempty"`
	Output  string `json:"output,omitempty"`
	Cmd     string `json:"cmd,omitempty"`
}

func goLit(v uint64, typ string) string {
	return fmt.Sprintf("%s(u64(%#x))", typ, v)
}

// genReplayTest renders an in-package test that runs the real function on the model's inputs
// and evaluates the contract's own clause functions on the real pre- and post-state.
func genReplayTest(fc *vc.FnContract, rep *vc.FuncReport, model map[string]uint64) (string, string) {
	c := fc.C
	var b strings.Builder
	fmt.Fprintf(&b, "//go:build verif\n\npackage %s\n\nimport (\n\t\"fmt\"\n\t\"testing\"\n)\n\n", c.PkgName)
	b.WriteString("func u64(x uint64) uint64 { return x }\n\n")
	b.WriteString("func TestGovcReplay(t *testing.T) {\n")
	ps := c.AllParams()
	if len(ps) != len(rep.Params) {
		return "", "parameter list of contract and function differ"
	}
	var args []string
	type snap struct{ name, arg string }
	var snaps []snap
	for i, p := range ps {
		pi := rep.Params[i]
		a := fmt.Sprintf("a%d", i)
		args = append(args, a)
		switch pi.Kind {
		case "int":
			fmt.Fprintf(&b, "\tvar %s %s = %s\n", a, p.Type, goLit(model[pi.Name], p.Type))
		case "bool":
			fmt.Fprintf(&b, "\tvar %s %s = %v\n", a, p.Type, model[pi.Name] != 0)
		case "bytearray":
			if model[pi.Name+".ref"] == 0 {
				fmt.Fprintf(&b, "\tvar %s %s = nil\n", a, p.Type)
				break
			}
			base := strings.TrimPrefix(p.Type, "*")
			var bs []string
			for k := 0; k < pi.Len; k++ {
				bs = append(bs, fmt.Sprintf("%#02x", model[fmt.Sprintf("%s[%d]", pi.Name, k)]))
			}
			fmt.Fprintf(&b, "\tvar %s %s = &%s{%s}\n", a, p.Type, base, strings.Join(bs, ", "))
			snaps = append(snaps, snap{pi.Name, a})
		case "byteslice":
			ln := model[pi.Name+".len"]
			if model[pi.Name+".ref"] == 0 {
				fmt.Fprintf(&b, "\tvar %s %s = nil\n", a, p.Type)
				break
			}
			if ln > 1<<16 {
				return "", fmt.Sprintf("model asks for a %d-byte slice", ln)
			}
			var bs []string
			for k := 0; k < pi.Len && uint64(k) < ln; k++ {
				bs = append(bs, fmt.Sprintf("%#02x", model[fmt.Sprintf("%s[%d]", pi.Name, k)]))
			}
			fmt.Fprintf(&b, "\tvar %s %s = make([]byte, %d)\n\tcopy(%s, []byte{%s})\n", a, p.Type, ln, a, strings.Join(bs, ", "))
			snaps = append(snaps, snap{pi.Name, a})
		default:
			return "", "parameter " + pi.Name + " of type " + pi.Type + " cannot be built from a model"
		}
	}
	argl := strings.Join(args, ", ")
	for _, cl := range c.Requires {
		fmt.Fprintf(&b, "\tif !%s(%s) {\n\t\tfmt.Println(\"GOVC-REPLAY: requires-false %d\")\n\t\treturn\n\t}\n", cl.Func, argl, cl.Idx)
	}
	// frame ranges (evaluated in the pre-state)
	for _, ml := range c.Modifies {
		if ml.Kind == "range" {
			fmt.Fprintf(&b, "\tmlo%d, mhi%d := %s(%s), %s(%s)\n\t_, _ = mlo%d, mhi%d\n", ml.Idx, ml.Idx, ml.LoFn, argl, ml.HiFn, argl, ml.Idx, ml.Idx)
		}
	}
	for _, cl := range c.Ensures {
		for m, of := range cl.OldFn {
			fmt.Fprintf(&b, "\to_%d_%d := %s(%s)\n", cl.Idx, m, of, argl)
		}
	}
	for _, s := range snaps {
		fmt.Fprintf(&b, "\tsnap_%s := append([]byte(nil), %s[:]...)\n", s.arg, s.arg)
	}
	// call
	var rnames []string
	for i, r := range c.Results {
		fmt.Fprintf(&b, "\tvar r%d %s\n", i, r.Type)
		rnames = append(rnames, fmt.Sprintf("r%d", i))
	}
	call := ""
	if c.Recv != nil {
		call = fmt.Sprintf("%s.%s(%s)", args[0], c.Name, strings.Join(args[1:], ", "))
	} else {
		call = fmt.Sprintf("%s(%s)", c.Name, argl)
	}
	if c.Variadic {
		call = strings.TrimSuffix(call, ")") + "...)"
	}
	b.WriteString("\tpanicked := \"\"\n\tfunc() {\n\t\tdefer func() {\n\t\t\tif r := recover(); r != nil {\n\t\t\t\tpanicked = fmt.Sprint(r)\n\t\t\t}\n\t\t}()\n")
	if len(rnames) > 0 {
		fmt.Fprintf(&b, "\t\t%s = %s\n", strings.Join(rnames, ", "), call)
	} else {
		fmt.Fprintf(&b, "\t\t%s\n", call)
	}
	b.WriteString("\t}()\n\tif panicked != \"\" {\n\t\tfmt.Println(\"GOVC-REPLAY: panic:\", panicked)\n\t\treturn\n\t}\n")
	for _, cl := range c.Ensures {
		as := append(append([]string{}, args...), rnames...)
		for m := range cl.OldFn {
			as = append(as, fmt.Sprintf("o_%d_%d", cl.Idx, m))
		}
		fmt.Fprintf(&b, "\tif !%s(%s) {\n\t\tfmt.Println(\"GOVC-REPLAY: ensures-false %d\")\n\t}\n", cl.Func, strings.Join(as, ", "), cl.Idx)
	}
	// frame on byte inputs
	for _, s := range snaps {
		allowed := []string{"false"}
		skip := false
		for _, ml := range c.Modifies {
			base := strings.TrimSpace(ml.Base)
			if base != s.name {
				if strings.Contains(ml.Text, s.name) {
					skip = true
				}
				continue
			}
			switch ml.Kind {
			case "deref", "all":
				allowed = append(allowed, "true")
			case "range":
				allowed = append(allowed, fmt.Sprintf("(mlo%d <= j && j < mhi%d)", ml.Idx, ml.Idx))
			}
		}
		if skip {
			continue
		}
		fmt.Fprintf(&b, "\tfor j := range snap_%s {\n\t\tif snap_%s[j] != %s[j] && !(%s) {\n\t\t\tfmt.Println(\"GOVC-REPLAY: frame-violated %s byte\", j)\n\t\t\tbreak\n\t\t}\n\t}\n",
			s.arg, s.arg, s.arg, strings.Join(allowed, " || "), s.name)
	}
	b.WriteString("\tfmt.Println(\"GOVC-REPLAY: done\")\n}\n")
	return b.String(), ""
}

func findContract(L *Loaded, qname string) *vc.FnContract {
	for _, fc := range L.Contracts {
		if fc.C.QName() == qname {
			return fc
		}
	}
	return nil
}

func runReplay(L *Loaded, rep *vc.FuncReport, ob *vc.Obligation) *ReplayResult {
	fc := findContract(L, rep.QName)
	if fc == nil {
		return &ReplayResult{Outcome: "error", Detail: "contract not found"}
	}
	src, why := genReplayTest(fc, rep, ob.Model)
	if src == "" {
		return &ReplayResult{Outcome: "not-replayable", Detail: why}
	}
	return execReplay(L, fc, src, ob.Kind)
}

func execReplay(L *Loaded, fc *vc.FnContract, src string, kind string) *ReplayResult {
	res := &ReplayResult{Test: src}
	base := os.Getenv("GOVC_WORK")
	if base == "" {
		base = os.TempDir()
	}
	dir, err := os.MkdirTemp(base, "govc-replay-")
	if err != nil {
		res.Outcome, res.Detail = "error", err.Error()
		return res
	}
	defer os.RemoveAll(dir)
	ov := map[string]string{}
	i := 0
	for path, gsrc := range L.GenSrc {
		f := filepath.Join(dir, fmt.Sprintf("gen%d.go", i))
		i++
		os.WriteFile(f, []byte(gsrc), 0o644)
		ov[path] = f
	}
	tf := filepath.Join(dir, "replay_test.go")
	os.WriteFile(tf, []byte(src), 0o644)
	ov[filepath.Join(fc.C.Dir, "zz_govc_replay_test.go")] = tf
	ovb, _ := json.Marshal(map[string]interface{}{"Replace": ov})
	ovf := filepath.Join(dir, "overlay.json")
	os.WriteFile(ovf, ovb, 0o644)
	ctx, cancel := context.WithTimeout(context.Background(), 180*time.Second)
	defer cancel()
	args := []string{"test", "-tags=verif", "-overlay", ovf, "-vet=off", "-count=1", "-timeout", "60s", "-run", "^TestGovcReplay$", "-v", fc.C.PkgPath}
	cmd := exec.CommandContext(ctx, "go", args...)
	cmd.Dir = repoDir()
	cmd.Env = append(os.Environ(), "GOFLAGS=-mod=mod", "GOPROXY=off", "GOSUMDB=off", "GOTOOLCHAIN=local", "GOWORK=off")
	var out bytes.Buffer
	cmd.Stdout = &out
	cmd.Stderr = &out
	cmd.Run()
	res.Cmd = "go " + strings.Join(args, " ")
	o := out.String()
	if len(o) > 6000 {
		o = o[:6000]
	}
	res.Output = o
	var marks []string
	for _, ln := range strings.Split(o, "\n") {
		if strings.HasPrefix(ln, "GOVC-REPLAY: ") {
			marks = append(marks, strings.TrimPrefix(ln, "GOVC-REPLAY: "))
		}
	}
	switch {
	case strings.Contains(o, "panic: test timed out"):
		res.Outcome, res.Detail = "confirmed", "the real function did not return within 60 s"
	case len(marks) == 0:
		res.Outcome, res.Detail = "error", "replay test did not run: "+firstLine(o)
	case strings.HasPrefix(marks[0], "requires-false"):
		res.Outcome, res.Detail = "precondition-not-met", "the model's input does not satisfy the precondition when rebuilt concretely ("+marks[0]+")"
	case strings.HasPrefix(marks[0], "panic"):
		res.Outcome, res.Detail = "confirmed", "the real function panics on the model's input: "+marks[0]
	default:
		var bad []string
		for _, m := range marks {
			if strings.HasPrefix(m, "ensures-false") || strings.HasPrefix(m, "frame-violated") {
				bad = append(bad, m)
			}
		}
		if len(bad) > 0 {
			res.Outcome, res.Detail = "confirmed", "on the model's input the real function violates its contract: "+strings.Join(bad, "; ")
		} else {
			res.Outcome, res.Detail = "not-reproduced", "the real function satisfies every contract clause on the model's input (the failed obligation is internal: loop invariant, callee precondition or helper contract)"
		}
	}
	return res
}

func cmdReplay(args []string) int {
	if len(args) < 1 {
		usage()
	}
	b, err := os.ReadFile(args[0])
	if err != nil {
		fmt.Fprintln(os.Stderr, err)
		return 2
	}
	var data struct {
		Obligation string `json:"obligation"`
		Function   string `json:"function"`
		Kind       string `json:"kind"`
		Property   string `json:"property"`
		Output     string `json:"verifier_output"`
		Replay     *ReplayResult
	}
	if err := json.Unmarshal(b, &data); err != nil {
		fmt.Fprintln(os.Stderr, err)
		return 2
	}
	fmt.Printf("obligation: %s\n", data.Obligation)
	if data.Replay == nil || data.Replay.Test == "" {
		fmt.Printf("no failing input recorded; verifier output:\n%s\n", data.Output)
		return 1
	}
	L, err := Load()
	if err != nil {
		fmt.Fprintln(os.Stderr, err)
		return 2
	}
	fc := findContract(L, data.Function)
	if fc == nil {
		fmt.Fprintln(os.Stderr, "function under contract not found:", data.Function)
		return 2
	}
	rr := execReplay(L, fc, data.Replay.Test, data.Kind)
	fmt.Printf("replay outcome: %s — %s\n", rr.Outcome, rr.Detail)
	if rr.Outcome == "confirmed" {
		fmt.Printf("VIOLATION property=%s replay=%s\n", data.Property, args[0])
		return 1
	}
	return 0
}

var _ = contracts.GenFile
