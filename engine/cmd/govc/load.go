package main

import (
	"fmt"
	"go/types"
	"os"
	"path/filepath"
	"sort"
	"strings"

	"govc/contracts"
	"govc/vc"

	"golang.org/x/tools/go/packages"
	"golang.org/x/tools/go/ssa"
	"golang.org/x/tools/go/ssa/ssautil"
)

const modulePath = "github.com/Comcast/gots/v2"

type Loaded struct {
	Prog      *ssa.Program
	Pkgs      []*packages.Package
	SSAPkgs   map[string]*ssa.Package
	PC        map[string]*contracts.PkgContracts // by package path
	Contracts []*vc.FnContract
	Engine    *vc.Engine
	GenSrc    map[string]string // overlay file path -> content (pass 2)
}

func repoDir() string {
	if d := os.Getenv("GOVC_REPO"); d != "" {
		return d
	}
	return "/repo"
}

func loadCfg(dir string, overlay map[string][]byte, mode packages.LoadMode) *packages.Config {
	env := append(os.Environ(), "GOFLAGS=-mod=mod", "GOPROXY=off", "GOSUMDB=off", "GOTOOLCHAIN=local", "GOWORK=off")
	return &packages.Config{Mode: mode, Dir: dir, BuildFlags: []string{"-tags=verif"}, Overlay: overlay, Env: env, Tests: false}
}

func pkgErrors(pkgs []*packages.Package) error {
	var msgs []string
	packages.Visit(pkgs, nil, func(p *packages.Package) {
		for _, e := range p.Errors {
			msgs = append(msgs, e.Error())
		}
	})
	if len(msgs) > 0 {
		if len(msgs) > 30 {
			msgs = msgs[:30]
		}
		return fmt.Errorf("load errors:\n  %s", strings.Join(msgs, "\n  "))
	}
	return nil
}

// Load parses the contract files, type-checks probes (pass 1), and builds SSA with the
// generated clause functions in an overlay (pass 2).
func Load() (*Loaded, error) {
	dir := repoDir()
	L := &Loaded{PC: map[string]*contracts.PkgContracts{}, SSAPkgs: map[string]*ssa.Package{}, GenSrc: map[string]string{}}
	// find contract files
	err := filepath.Walk(dir, func(p string, info os.FileInfo, err error) error {
		if err != nil {
			return nil
		}
		if info.IsDir() && (info.Name() == ".git" || info.Name() == "testdata") {
			return filepath.SkipDir
		}
		if !info.IsDir() && info.Name() == contracts.ContractFile {
			d := filepath.Dir(p)
			rel, _ := filepath.Rel(dir, d)
			pp := modulePath
			if rel != "." {
				pp = modulePath + "/" + filepath.ToSlash(rel)
			}
			pc, err := contracts.ParseDir(d, pp)
			if err != nil {
				return err
			}
			if pc != nil {
				L.PC[pp] = pc
			}
		}
		return nil
	})
	if err != nil {
		return nil, err
	}
	// pass 1: probes
	ov := map[string][]byte{}
	for _, pc := range L.PC {
		ov[filepath.Join(pc.Dir, contracts.GenFile)] = []byte(pc.GenProbe())
	}
	mode1 := packages.NeedName | packages.NeedFiles | packages.NeedCompiledGoFiles | packages.NeedImports | packages.NeedTypes | packages.NeedTypesInfo | packages.NeedSyntax | packages.NeedDeps
	pk1, err := packages.Load(loadCfg(dir, ov, mode1), "./...")
	if err != nil {
		return nil, err
	}
	if err := pkgErrors(pk1); err != nil {
		if os.Getenv("GOVC_DUMP") != "" {
			for p, s := range ov {
				fmt.Fprintf(os.Stderr, "=== %s\n%s\n", p, s)
			}
		}
		return nil, fmt.Errorf("pass 1 (contract probes): %v", err)
	}
	for _, p := range pk1 {
		pc := L.PC[p.PkgPath]
		if pc == nil {
			continue
		}
		ty := map[string]string{}
		qual := func(other *types.Package) string {
			if other == p.Types {
				return ""
			}
			for name, path := range pc.Imports {
				if path == other.Path() {
					return name
				}
			}
			pc.Imports[other.Name()] = other.Path()
			return other.Name()
		}
		for id, obj := range p.TypesInfo.Defs {
			if obj == nil || !strings.HasPrefix(id.Name, "__t__") {
				continue
			}
			ty[id.Name] = types.TypeString(obj.Type(), qual)
		}
		if err := pc.SetProbeTypes(ty); err != nil {
			return nil, err
		}
	}
	// pass 2
	ov = map[string][]byte{}
	for _, pc := range L.PC {
		src := pc.GenFinal()
		path := filepath.Join(pc.Dir, contracts.GenFile)
		ov[path] = []byte(src)
		L.GenSrc[path] = src
	}
	pk2, err := packages.Load(loadCfg(dir, ov, packages.LoadAllSyntax), "./...")
	if err != nil {
		return nil, err
	}
	if err := pkgErrors(pk2); err != nil {
		if os.Getenv("GOVC_DUMP") != "" {
			for p, s := range ov {
				fmt.Fprintf(os.Stderr, "=== %s\n%s\n", p, s)
			}
		}
		return nil, fmt.Errorf("pass 2 (generated clause functions): %v", err)
	}
	prog, spkgs := ssautil.AllPackages(pk2, ssa.GlobalDebug|ssa.BareInits)
	prog.Build()
	L.Prog = prog
	L.Pkgs = pk2
	for i, p := range pk2 {
		if spkgs[i] != nil {
			L.SSAPkgs[p.PkgPath] = spkgs[i]
		}
	}
	L.Engine = vc.NewEngine(prog)
	L.Engine.RepoPrefix = modulePath
	// bind contracts
	var paths []string
	for pp := range L.PC {
		paths = append(paths, pp)
	}
	sort.Strings(paths)
	for _, pp := range paths {
		pc := L.PC[pp]
		sp := L.SSAPkgs[pp]
		if sp == nil {
			return nil, fmt.Errorf("no SSA package for %s", pp)
		}
		for _, c := range pc.Contracts {
			fn, err := findFunc(prog, sp, c.RecvBase, c.Name)
			if err != nil {
				return nil, fmt.Errorf("%s: contract for %s: %v (contract drift)", pp, c.Key(), err)
			}
			fc := &vc.FnContract{C: c, Fn: fn}
			L.Contracts = append(L.Contracts, fc)
			L.Engine.Contracts[fn] = fc
		}
		for key := range pc.Opaque {
			fn, err := findFunc(prog, sp, "", key)
			if err != nil {
				return nil, fmt.Errorf("%s: opaque %s: %v", pp, key, err)
			}
			L.Engine.Opaque[fn] = true
			if pc.Recursive[key] {
				L.Engine.Recursive[fn] = true
			}
		}
		for key := range pc.Prefix {
			fn, err := findFunc(prog, sp, "", key)
			if err != nil {
				return nil, fmt.Errorf("%s: prefix %s: %v", pp, key, err)
			}
			L.Engine.Prefix[fn] = true
		}
		for key := range pc.PureFields {
			L.Engine.PureFields[pc.PkgPath+"."+key] = true
		}
		for key := range pc.Transparent {
			recv, name := "", key
			if i := strings.Index(key, "."); i >= 0 {
				recv, name = key[:i], key[i+1:]
			}
			fn, err := findFunc(prog, sp, recv, name)
			if err != nil {
				return nil, fmt.Errorf("%s: transparent %s: %v", pp, key, err)
			}
			L.Engine.Transparent[fn] = true
		}
	}
	return L, nil
}

func findFunc(prog *ssa.Program, sp *ssa.Package, recv, name string) (*ssa.Function, error) {
	if recv == "" {
		if fn := sp.Func(name); fn != nil {
			return fn, nil
		}
		return nil, fmt.Errorf("function %s not found", name)
	}
	obj := sp.Pkg.Scope().Lookup(recv)
	if obj == nil {
		return nil, fmt.Errorf("type %s not found", recv)
	}
	for _, t := range []types.Type{obj.Type(), types.NewPointer(obj.Type())} {
		ms := prog.MethodSets.MethodSet(t)
		for i := 0; i < ms.Len(); i++ {
			if ms.At(i).Obj().Name() == name {
				if fn := prog.MethodValue(ms.At(i)); fn != nil {
					// unwrap promoted/wrapper methods: we want the declared method
					if fn.Synthetic == "" {
						return fn, nil
					}
				}
				if f, ok := ms.At(i).Obj().(*types.Func); ok {
					if fn := prog.FuncValue(f); fn != nil {
						return fn, nil
					}
				}
			}
		}
	}
	// a method promoted through an embedded interface exists only as a synthetic wrapper
	for _, t := range []types.Type{types.NewPointer(obj.Type()), obj.Type()} {
		ms := prog.MethodSets.MethodSet(t)
		for i := 0; i < ms.Len(); i++ {
			if ms.At(i).Obj().Name() == name {
				if fn := prog.MethodValue(ms.At(i)); fn != nil {
					return fn, nil
				}
			}
		}
	}
	return nil, fmt.Errorf("method %s.%s not found", recv, name)
}
