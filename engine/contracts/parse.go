// Package contracts reads the //@ contract blocks kept in /repo/<pkg>/zz_verif_contracts.go
// (build tag verif) and turns every clause into a Go function that lives in an
// in-memory overlay file of the same package. The same generated function is
// type-checked by go/types, translated to SMT by the executor and executed by replay.
package contracts

import (
	"fmt"
	"go/ast"
	"go/parser"
	"go/printer"
	"go/token"
	"os"
	"path/filepath"
	"regexp"
	"sort"
	"strings"
)

const ContractFile = "zz_verif_contracts.go"
const GenFile = "zz_verif_gen.go"

type Param struct {
	Name string
	Type string // Go type text as written in the contract header
}

type Clause struct {
	Kind  string // requires | ensures | invariant | decreases
	Text  string // as written
	Go    string // Go expression after preprocessing (olds/pres replaced by __oN/__pN)
	Olds  []string
	Pres  []string
	Func  string // generated function name
	OldFn []string
	PreFn []string
	OldTy []string
	PreTy []string
	Line  int
	Idx   int
}

type ModLoc struct {
	Text   string
	Kind   string // nothing | deref | range | all | field
	Base   string // Go expr
	Lo, Hi string
	Field  string
	BaseFn string
	LoFn   string
	HiFn   string
	BaseTy string
	Idx    int
}

// CaseSpec: prove hard obligations by enumerating the masked bits of an input expression.
type CaseSpec struct {
	Expr string
	Mask uint64
	Fn   string
	Ty   string
}

type Split struct {
	Name   string
	Lo, Hi int
}

type Loop struct {
	Splits  []Split
	Ordinal int
	Locals  []Param
	Invs    []*Clause
	Dec     *Clause
	Line    int
}

type Contract struct {
	PkgPath  string
	PkgName  string
	Dir      string
	Line     int
	Header   string
	Recv     *Param
	RecvBase string // receiver base type name (without *)
	Name     string
	Params   []Param
	Results  []Param
	Props    []string
	Requires []*Clause
	Ensures  []*Clause
	Modifies []*ModLoc
	HasMod   bool
	Loops    []*Loop
	ID       string
	Trusted  bool // contract is assumed, body not verified (listed in assumptions)
	Bounded  string
	Variadic bool
	Cases    []*CaseSpec
	// SplitPaths: explore the function's own branches one decision at a time (no merging)
	SplitPaths bool

	modClauses []*Clause
}

// Key is "Recv.Name" or "Name".
func (c *Contract) Key() string {
	if c.RecvBase != "" {
		return c.RecvBase + "." + c.Name
	}
	return c.Name
}
func (c *Contract) QName() string { return c.PkgPath + "." + c.Key() }

// AllParams returns receiver followed by params.
func (c *Contract) AllParams() []Param {
	var ps []Param
	if c.Recv != nil {
		ps = append(ps, *c.Recv)
	}
	return append(ps, c.Params...)
}

type PkgContracts struct {
	PkgPath     string
	PkgName     string
	Dir         string
	Contracts   []*Contract
	Transparent map[string]bool // Key()s of functions that are inlined instead of having a contract
	Opaque      map[string]bool // recursive spec functions treated as uninterpreted with one-step unfolding
	Recursive   map[string]bool // opaque + quantified defining axiom
	Prefix      map[string]bool // opaque f(s, n, ...) declared to depend on s[0:n] only
	PureFields  map[string]bool // Type.field: function-valued fields assumed to hold pure, total functions
	Imports     map[string]string
	Assumes     []string
}

var kwRe = regexp.MustCompile(`^(func|props|requires|ensures|modifies|loop|invariant|decreases|split|paths|cases|transparent|opaque|recursive|purefield|prefix|end|trusted|bounded)\b`)

// ParseDir parses the contract file of one package directory (nil if none).
func ParseDir(dir, pkgPath string) (*PkgContracts, error) {
	path := filepath.Join(dir, ContractFile)
	src, err := os.ReadFile(path)
	if err != nil {
		if os.IsNotExist(err) {
			return nil, nil
		}
		return nil, err
	}
	pc := &PkgContracts{PkgPath: pkgPath, Dir: dir, Transparent: map[string]bool{}, Opaque: map[string]bool{}, Recursive: map[string]bool{}, Prefix: map[string]bool{}, PureFields: map[string]bool{}, Imports: map[string]string{}}
	fset := token.NewFileSet()
	// package name and imports from all non-test files of the directory
	ents, _ := os.ReadDir(dir)
	for _, e := range ents {
		n := e.Name()
		if !strings.HasSuffix(n, ".go") || strings.HasSuffix(n, "_test.go") || n == GenFile {
			continue
		}
		f, err := parser.ParseFile(fset, filepath.Join(dir, n), nil, parser.ImportsOnly)
		if err != nil {
			continue
		}
		pc.PkgName = f.Name.Name
		for _, im := range f.Imports {
			p := strings.Trim(im.Path.Value, `"`)
			name := filepath.Base(p)
			if strings.HasPrefix(name, "v") && len(name) <= 3 { // module major version suffix
				name = filepath.Base(filepath.Dir(p))
			}
			if im.Name != nil {
				name = im.Name.Name
			}
			if name != "_" && name != "." {
				pc.Imports[name] = p
			}
		}
	}
	lines := strings.Split(string(src), "\n")
	var cur *Contract
	var curLoop *Loop
	var lastClause *Clause
	var lastMod *[]string
	_ = lastMod
	finish := func() {
		if cur != nil {
			pc.Contracts = append(pc.Contracts, cur)
		}
		cur, curLoop, lastClause = nil, nil, nil
	}
	for i, ln := range lines {
		t := strings.TrimSpace(ln)
		if !strings.HasPrefix(t, "//@") {
			continue
		}
		body := strings.TrimSpace(t[3:])
		if body == "" {
			continue
		}
		m := kwRe.FindString(body)
		if m == "" {
			// continuation of the previous clause
			if lastClause == nil {
				return nil, fmt.Errorf("%s:%d: continuation line without clause", path, i+1)
			}
			lastClause.Text += " " + body
			continue
		}
		rest := strings.TrimSpace(body[len(m):])
		switch m {
		case "func":
			finish()
			c, err := parseHeader(body)
			if err != nil {
				return nil, fmt.Errorf("%s:%d: %v", path, i+1, err)
			}
			c.PkgPath, c.PkgName, c.Dir, c.Line = pkgPath, pc.PkgName, dir, i+1
			cur = c
		case "end":
			finish()
		case "transparent":
			for _, f := range strings.Fields(strings.ReplaceAll(rest, ",", " ")) {
				pc.Transparent[f] = true
			}
			lastClause = nil
		case "opaque":
			for _, f := range strings.Fields(strings.ReplaceAll(rest, ",", " ")) {
				pc.Opaque[f] = true
			}
			lastClause = nil
		case "purefield":
			for _, f := range strings.Fields(strings.ReplaceAll(rest, ",", " ")) {
				pc.PureFields[f] = true
			}
			lastClause = nil
		case "prefix":
			for _, f := range strings.Fields(strings.ReplaceAll(rest, ",", " ")) {
				pc.Prefix[f] = true
			}
			lastClause = nil
		case "recursive":
			for _, f := range strings.Fields(strings.ReplaceAll(rest, ",", " ")) {
				pc.Opaque[f] = true
				pc.Recursive[f] = true
			}
			lastClause = nil
		default:
			if cur == nil {
				return nil, fmt.Errorf("%s:%d: clause outside func block", path, i+1)
			}
			switch m {
			case "props":
				cur.Props = append(cur.Props, strings.Fields(strings.ReplaceAll(rest, ",", " "))...)
				lastClause = nil
			case "trusted":
				cur.Trusted = true
				lastClause = nil
			case "paths":
				cur.SplitPaths = true
				lastClause = nil
			case "cases":
				k := strings.LastIndex(rest, " bits ")
				if k < 0 {
					return nil, fmt.Errorf("%s:%d: bad cases clause (want: cases <expr> bits <mask>)", path, i+1)
				}
				var m uint64
				if _, err := fmt.Sscanf(strings.TrimSpace(rest[k+6:]), "%v", &m); err != nil {
					return nil, fmt.Errorf("%s:%d: bad mask in cases clause", path, i+1)
				}
				cur.Cases = append(cur.Cases, &CaseSpec{Expr: strings.TrimSpace(rest[:k]), Mask: m})
				lastClause = nil
			case "bounded":
				cur.Bounded = rest
				lastClause = nil
			case "requires", "ensures":
				cl := &Clause{Kind: m, Text: rest, Line: i + 1}
				if curLoop != nil {
					return nil, fmt.Errorf("%s:%d: %s after loop section", path, i+1, m)
				}
				if m == "requires" {
					cl.Idx = len(cur.Requires)
					cur.Requires = append(cur.Requires, cl)
				} else {
					cl.Idx = len(cur.Ensures)
					cur.Ensures = append(cur.Ensures, cl)
				}
				lastClause = cl
			case "modifies":
				cur.HasMod = true
				cl := &Clause{Kind: "modifies", Text: rest, Line: i + 1}
				cur.modClauses = append(cur.modClauses, cl)
				lastClause = cl
			case "loop":
				lp, err := parseLoopHeader(rest)
				if err != nil {
					return nil, fmt.Errorf("%s:%d: %v", path, i+1, err)
				}
				lp.Line = i + 1
				cur.Loops = append(cur.Loops, lp)
				curLoop = lp
				lastClause = nil
			case "invariant":
				if curLoop == nil {
					return nil, fmt.Errorf("%s:%d: invariant outside loop section", path, i+1)
				}
				cl := &Clause{Kind: m, Text: rest, Line: i + 1, Idx: len(curLoop.Invs)}
				curLoop.Invs = append(curLoop.Invs, cl)
				lastClause = cl
			case "split":
				if curLoop == nil {
					return nil, fmt.Errorf("%s:%d: split outside loop section", path, i+1)
				}
				var sp Split
				if _, err := fmt.Sscanf(rest, "%s in %d..%d", &sp.Name, &sp.Lo, &sp.Hi); err != nil {
					return nil, fmt.Errorf("%s:%d: bad split %q (want: split x in lo..hi)", path, i+1, rest)
				}
				curLoop.Splits = append(curLoop.Splits, sp)
				lastClause = nil
			case "decreases":
				if curLoop == nil {
					return nil, fmt.Errorf("%s:%d: decreases outside loop section", path, i+1)
				}
				cl := &Clause{Kind: m, Text: rest, Line: i + 1}
				curLoop.Dec = cl
				lastClause = cl
			}
		}
	}
	finish()
	ids := map[string]bool{}
	for _, c := range pc.Contracts {
		c.ID = strings.ReplaceAll(c.Key(), ".", "_")
		if ids[c.ID] {
			return nil, fmt.Errorf("%s: duplicate contract for %s", path, c.Key())
		}
		ids[c.ID] = true
		if err := c.prepare(); err != nil {
			return nil, fmt.Errorf("%s:%d (%s): %v", path, c.Line, c.Key(), err)
		}
	}
	return pc, nil
}

func exprString(fset *token.FileSet, e ast.Node) string {
	var b strings.Builder
	printer.Fprint(&b, fset, e)
	return b.String()
}

func parseHeader(h string) (*Contract, error) {
	fset := token.NewFileSet()
	f, err := parser.ParseFile(fset, "h.go", "package x\n"+h+" {}\n", 0)
	if err != nil {
		return nil, fmt.Errorf("bad func header %q: %v", h, err)
	}
	fd, ok := f.Decls[0].(*ast.FuncDecl)
	if !ok {
		return nil, fmt.Errorf("bad func header %q", h)
	}
	c := &Contract{Header: h, Name: fd.Name.Name}
	if fd.Recv != nil && len(fd.Recv.List) == 1 {
		r := fd.Recv.List[0]
		name := "recv"
		if len(r.Names) == 1 {
			name = r.Names[0].Name
		}
		ts := exprString(fset, r.Type)
		c.Recv = &Param{name, ts}
		c.RecvBase = strings.TrimPrefix(ts, "*")
	}
	k := 0
	for _, fl := range fd.Type.Params.List {
		ts := exprString(fset, fl.Type)
		if _, ok := fl.Type.(*ast.Ellipsis); ok {
			c.Variadic = true
			ts = "[]" + strings.TrimPrefix(ts, "...")
		}
		if len(fl.Names) == 0 {
			c.Params = append(c.Params, Param{fmt.Sprintf("arg%d", k), ts})
			k++
		}
		for _, n := range fl.Names {
			nm := n.Name
			if nm == "_" {
				nm = fmt.Sprintf("arg%d", k)
			}
			c.Params = append(c.Params, Param{nm, ts})
			k++
		}
	}
	if fd.Type.Results != nil {
		var rs []Param
		for _, fl := range fd.Type.Results.List {
			ts := exprString(fset, fl.Type)
			if len(fl.Names) == 0 {
				rs = append(rs, Param{"", ts})
			}
			for _, n := range fl.Names {
				rs = append(rs, Param{n.Name, ts})
			}
		}
		for i := range rs {
			if rs[i].Name == "" || rs[i].Name == "_" {
				if len(rs) == 1 {
					rs[i].Name = "result"
				} else {
					rs[i].Name = fmt.Sprintf("result%d", i)
				}
			}
		}
		c.Results = rs
	}
	return c, nil
}

var loopHdrRe = regexp.MustCompile(`^(\d+)\s*(?:\((.*)\))?\s*:?\s*$`)

func parseLoopHeader(rest string) (*Loop, error) {
	m := loopHdrRe.FindStringSubmatch(rest)
	if m == nil {
		return nil, fmt.Errorf("bad loop header %q (want: loop N (x T, y U))", rest)
	}
	lp := &Loop{}
	fmt.Sscanf(m[1], "%d", &lp.Ordinal)
	if strings.TrimSpace(m[2]) != "" {
		fset := token.NewFileSet()
		f, err := parser.ParseFile(fset, "h.go", "package x\nfunc f("+m[2]+") {}\n", 0)
		if err != nil {
			return nil, fmt.Errorf("bad loop locals %q: %v", m[2], err)
		}
		fd := f.Decls[0].(*ast.FuncDecl)
		for _, fl := range fd.Type.Params.List {
			ts := exprString(fset, fl.Type)
			for _, n := range fl.Names {
				lp.Locals = append(lp.Locals, Param{n.Name, ts})
			}
		}
	}
	return lp, nil
}

// ---- expression preprocessing

// translate rewrites ==>, <==>, forall/exists into Go.
func translate(s string) (string, error) {
	s = strings.TrimSpace(s)
	// a quantifier's body extends as far right as possible: if a quantifier starts before the
	// first top-level (bi-)implication, it swallows it
	qpos := findQuant(s)
	if qpos >= 0 {
		i1, i2 := indexTop(s, "<==>"), indexTop(s, "==>")
		if (i1 < 0 || qpos < i1) && (i2 < 0 || qpos < i2) {
			return translateQuant(s, qpos)
		}
	}
	// lowest precedence: <==>
	if parts := splitTop(s, "<==>"); len(parts) > 1 {
		if len(parts) != 2 {
			return "", fmt.Errorf("chained <==> in %q", s)
		}
		a, err := translate(parts[0])
		if err != nil {
			return "", err
		}
		b, err := translate(parts[1])
		if err != nil {
			return "", err
		}
		return "((" + a + ") == (" + b + "))", nil
	}
	if parts := splitTop(s, "==>"); len(parts) > 1 {
		// right associative
		a, err := translate(parts[0])
		if err != nil {
			return "", err
		}
		b, err := translate(strings.Join(parts[1:], "==>"))
		if err != nil {
			return "", err
		}
		return "(!(" + a + ") || (" + b + "))", nil
	}
	// quantifier at depth 0
	if i := findQuant(s); i >= 0 {
		return translateQuant(s, i)
	}
	return translateGroups(s)
}

func translateQuant(s string, i int) (string, error) {
	{
		prefix := s[:i]
		q := s[i:]
		kw := "forall"
		fn := "verifForall"
		if strings.HasPrefix(q, "exists") {
			kw, fn = "exists", "verifExists"
		}
		q = strings.TrimSpace(q[len(kw):])
		// IDENT in lo..hi :: body
		m := regexp.MustCompile(`^([A-Za-z_][A-Za-z0-9_]*)\s+in\s+`).FindStringSubmatch(q)
		if m == nil {
			return "", fmt.Errorf("bad quantifier syntax in %q", s)
		}
		v := m[1]
		q = q[len(m[0]):]
		j := indexTop(q, "::")
		if j < 0 {
			return "", fmt.Errorf("quantifier without :: in %q", s)
		}
		rng, body := q[:j], q[j+2:]
		k := indexTop(rng, "..")
		if k < 0 {
			return "", fmt.Errorf("quantifier range without .. in %q", s)
		}
		lo, err := translate(rng[:k])
		if err != nil {
			return "", err
		}
		hi, err := translate(rng[k+2:])
		if err != nil {
			return "", err
		}
		b, err := translate(body)
		if err != nil {
			return "", err
		}
		pre, err := translateGroups(prefix)
		if err != nil {
			return "", err
		}
		return pre + fn + "(" + lo + ", " + hi + ", func(" + v + " int) bool { return " + b + " })", nil
	}
}

// translateGroups recursively translates the contents of bracket groups.
func translateGroups(s string) (string, error) {
	var out strings.Builder
	i := 0
	for i < len(s) {
		ch := s[i]
		switch ch {
		case '"', '\'', '`':
			j := skipString(s, i)
			out.WriteString(s[i:j])
			i = j
		case '(', '[', '{':
			j := matchClose(s, i)
			if j < 0 {
				return "", fmt.Errorf("unbalanced %q in %q", ch, s)
			}
			inner := s[i+1 : j]
			var parts []string
			for _, p := range splitTop(inner, ",") {
				if ch == '[' {
					// slice expressions a[x:y] — translate around ':'
					var sub []string
					for _, q := range splitTop(p, ":") {
						t, err := translate(q)
						if err != nil {
							return "", err
						}
						sub = append(sub, t)
					}
					parts = append(parts, strings.Join(sub, ":"))
					continue
				}
				t, err := translate(p)
				if err != nil {
					return "", err
				}
				parts = append(parts, t)
			}
			out.WriteByte(ch)
			out.WriteString(strings.Join(parts, ", "))
			out.WriteByte(s[j])
			i = j + 1
		default:
			out.WriteByte(ch)
			i++
		}
	}
	return out.String(), nil
}

func skipString(s string, i int) int {
	q := s[i]
	j := i + 1
	for j < len(s) {
		if s[j] == '\\' && q != '`' {
			j += 2
			continue
		}
		if s[j] == q {
			return j + 1
		}
		j++
	}
	return len(s)
}

func matchClose(s string, i int) int {
	depth := 0
	for j := i; j < len(s); j++ {
		switch s[j] {
		case '"', '\'', '`':
			j = skipString(s, j) - 1
		case '(', '[', '{':
			depth++
		case ')', ']', '}':
			depth--
			if depth == 0 {
				return j
			}
		}
	}
	return -1
}

// indexTop finds sep at bracket depth 0.
func indexTop(s, sep string) int {
	depth := 0
	for j := 0; j < len(s); j++ {
		switch s[j] {
		case '"', '\'', '`':
			j = skipString(s, j) - 1
			continue
		case '(', '[', '{':
			depth++
			continue
		case ')', ']', '}':
			depth--
			continue
		}
		if depth == 0 && strings.HasPrefix(s[j:], sep) {
			if sep == "==>" && j > 0 && s[j-1] == '<' {
				continue
			}
			if sep == ":" && (strings.HasPrefix(s[j:], "::") || j > 0 && s[j-1] == ':') {
				continue
			}
			return j
		}
	}
	return -1
}

func splitTop(s, sep string) []string {
	var parts []string
	for {
		j := indexTop(s, sep)
		if j < 0 {
			parts = append(parts, s)
			return parts
		}
		parts = append(parts, s[:j])
		s = s[j+len(sep):]
	}
}

var quantRe = regexp.MustCompile(`\b(forall|exists)\s+[A-Za-z_][A-Za-z0-9_]*\s+in\b`)

func findQuant(s string) int {
	depth := 0
	for j := 0; j < len(s); j++ {
		switch s[j] {
		case '"', '\'', '`':
			j = skipString(s, j) - 1
			continue
		case '(', '[', '{':
			depth++
			continue
		case ')', ']', '}':
			depth--
			continue
		}
		if depth == 0 && (s[j] == 'f' || s[j] == 'e') && (j == 0 || !isIdent(s[j-1])) {
			if loc := quantRe.FindStringIndex(s[j:]); loc != nil && loc[0] == 0 {
				return j
			}
		}
	}
	return -1
}

func isIdent(b byte) bool {
	return b == '_' || b >= 'a' && b <= 'z' || b >= 'A' && b <= 'Z' || b >= '0' && b <= '9'
}

// hoist replaces kw(e) occurrences by prefix+index and returns the hoisted expressions.
func hoist(s, kw, prefix string) (string, []string, error) {
	var out strings.Builder
	var hs []string
	i := 0
	for i < len(s) {
		if s[i] == '"' || s[i] == '\'' || s[i] == '`' {
			j := skipString(s, i)
			out.WriteString(s[i:j])
			i = j
			continue
		}
		if strings.HasPrefix(s[i:], kw+"(") && (i == 0 || !isIdent(s[i-1]) && s[i-1] != '.') {
			j := matchClose(s, i+len(kw))
			if j < 0 {
				return "", nil, fmt.Errorf("unbalanced %s( in %q", kw, s)
			}
			e := s[i+len(kw)+1 : j]
			idx := -1
			for k, h := range hs {
				if h == e {
					idx = k
				}
			}
			if idx < 0 {
				hs = append(hs, e)
				idx = len(hs) - 1
			}
			fmt.Fprintf(&out, "%s%d", prefix, idx)
			i = j + 1
			continue
		}
		out.WriteByte(s[i])
		i++
	}
	return out.String(), hs, nil
}

func (cl *Clause) prepare() error {
	s, olds, err := hoist(cl.Text, "old", "__o")
	if err != nil {
		return err
	}
	s, pres, err := hoist(s, "pre", "__p")
	if err != nil {
		return err
	}
	s = strings.ReplaceAll(s, "fresh(", "verifFresh(")
	g, err := translate(s)
	if err != nil {
		return err
	}
	cl.Go = g
	for _, o := range olds {
		t, err := translate(o)
		if err != nil {
			return err
		}
		cl.Olds = append(cl.Olds, t)
	}
	for _, o := range pres {
		t, err := translate(o)
		if err != nil {
			return err
		}
		cl.Pres = append(cl.Pres, t)
	}
	return nil
}

func (c *Contract) prepare() error {
	for _, cl := range c.Requires {
		if err := cl.prepare(); err != nil {
			return err
		}
		if len(cl.Olds) > 0 || len(cl.Pres) > 0 {
			return fmt.Errorf("old()/pre() in requires")
		}
		cl.Func = fmt.Sprintf("__req_%s_%d", c.ID, cl.Idx)
	}
	for _, cl := range c.Ensures {
		if err := cl.prepare(); err != nil {
			return err
		}
		if len(cl.Pres) > 0 {
			return fmt.Errorf("pre() in ensures")
		}
		cl.Func = fmt.Sprintf("__ens_%s_%d", c.ID, cl.Idx)
		for m := range cl.Olds {
			cl.OldFn = append(cl.OldFn, fmt.Sprintf("__old_%s_%d_%d", c.ID, cl.Idx, m))
		}
	}
	for _, lp := range c.Loops {
		for _, cl := range lp.Invs {
			if err := cl.prepare(); err != nil {
				return err
			}
			cl.Func = fmt.Sprintf("__inv_%s_L%d_%d", c.ID, lp.Ordinal, cl.Idx)
			for m := range cl.Olds {
				cl.OldFn = append(cl.OldFn, fmt.Sprintf("__old_%s_L%d_%d_%d", c.ID, lp.Ordinal, cl.Idx, m))
			}
			for m := range cl.Pres {
				cl.PreFn = append(cl.PreFn, fmt.Sprintf("__pre_%s_L%d_%d_%d", c.ID, lp.Ordinal, cl.Idx, m))
			}
		}
		if lp.Dec != nil {
			if err := lp.Dec.prepare(); err != nil {
				return err
			}
			lp.Dec.Func = fmt.Sprintf("__dec_%s_L%d", c.ID, lp.Ordinal)
		}
	}
	for k, cs := range c.Cases {
		cs.Fn = fmt.Sprintf("__case_%s_%d", c.ID, k)
	}
	// modifies
	for _, mc := range c.modClauses {
		for _, item := range splitTop(mc.Text, ",") {
			item = strings.TrimSpace(item)
			if item == "" {
				continue
			}
			ml := &ModLoc{Text: item, Idx: len(c.Modifies)}
			switch {
			case item == "nothing":
				ml.Kind = "nothing"
			case strings.HasPrefix(item, "*"):
				ml.Kind = "deref"
				ml.Base = item[1:]
			case strings.HasSuffix(item, "]"):
				j := strings.LastIndex(item, "[")
				// find matching [ for final ]
				depth := 0
				for k := len(item) - 1; k >= 0; k-- {
					if item[k] == ']' {
						depth++
					} else if item[k] == '[' {
						depth--
						if depth == 0 {
							j = k
							break
						}
					}
				}
				ml.Base = item[:j]
				rng := item[j+1 : len(item)-1]
				if strings.TrimSpace(rng) == "*" {
					// base[*]: the whole backing array of the slice, whatever its bounds
					ml.Kind = "whole"
					break
				}
				k := indexTop(rng, "..")
				if k < 0 {
					return fmt.Errorf("modifies %q: want base[lo..hi] or base[..]", item)
				}
				if strings.TrimSpace(rng) == ".." {
					ml.Kind = "all"
				} else {
					ml.Kind = "range"
					ml.Lo, ml.Hi = strings.TrimSpace(rng[:k]), strings.TrimSpace(rng[k+2:])
				}
			default:
				j := strings.LastIndex(item, ".")
				if j < 0 {
					return fmt.Errorf("modifies %q: unsupported form", item)
				}
				ml.Kind = "field"
				ml.Base, ml.Field = item[:j], item[j+1:]
			}
			if ml.Kind != "nothing" {
				ml.BaseFn = fmt.Sprintf("__modbase_%s_%d", c.ID, ml.Idx)
				if ml.Kind == "range" {
					ml.LoFn = fmt.Sprintf("__modlo_%s_%d", c.ID, ml.Idx)
					ml.HiFn = fmt.Sprintf("__modhi_%s_%d", c.ID, ml.Idx)
				}
			}
			c.Modifies = append(c.Modifies, ml)
		}
	}
	return nil
}

func sortedKeys(m map[string]string) []string {
	var ks []string
	for k := range m {
		ks = append(ks, k)
	}
	sort.Strings(ks)
	return ks
}
