package contracts

import (
	"fmt"
	"os"
	"path/filepath"
	"regexp"
	"strings"
)

const helpers = `
func verifForall(lo, hi int, f func(int) bool) bool {
	for i := lo; i < hi; i++ {
		if !f(i) {
			return false
		}
	}
	return true
}

func verifExists(lo, hi int, f func(int) bool) bool {
	for i := lo; i < hi; i++ {
		if f(i) {
			return true
		}
	}
	return false
}

// verifFresh(x): x was allocated during the call (checked only symbolically).
func verifFresh(x interface{}) bool { return true }

// verifSeparate(a, b): a and b are different memory objects (assumed of inputs, decided symbolically).
func verifSeparate(a, b interface{}) bool { return true }

// verifBufOK(b): bytes.Buffer's own invariant 0 <= off <= len(buf) (decided symbolically; always true at run time).
func verifBufOK(b interface{}) bool { return true }

// verifVisited(m, k): during a range over map m, key k has already been produced (ghost; decided symbolically).
func verifVisited(m interface{}, k int) bool { return true }

// verifSnap returns an independent copy of b (used under old(...)).
func verifSnap(b []byte) []byte {
	c := make([]byte, len(b))
	copy(c, b)
	return c
}
`

func paramList(ps []Param) string {
	var s []string
	for _, p := range ps {
		s = append(s, p.Name+" "+p.Type)
	}
	return strings.Join(s, ", ")
}

func typeList(ps []Param) string {
	var s []string
	for _, p := range ps {
		s = append(s, p.Type)
	}
	return strings.Join(s, ", ")
}

func (c *Contract) conformance() string {
	if c.Variadic {
		return ""
	}
	var ps []string
	target := c.Name
	if c.Recv != nil {
		ps = append(ps, c.Recv.Type)
		target = "(" + c.Recv.Type + ")." + c.Name
	}
	for _, p := range c.Params {
		ps = append(ps, p.Type)
	}
	res := ""
	if len(c.Results) == 1 {
		res = " " + c.Results[0].Type
	} else if len(c.Results) > 1 {
		res = " (" + typeList(c.Results) + ")"
	}
	return fmt.Sprintf("var _ func(%s)%s = %s\n", strings.Join(ps, ", "), res, target)
}

// ProbeVar names the probe variable whose inferred type is the type of a hoisted expression.
func probeVar(fn string) string { return "__t" + fn }

// GenProbe renders the pass-1 overlay: conformance checks and probes for hoisted expression types.
func (pc *PkgContracts) GenProbe() string {
	var b strings.Builder
	for _, c := range pc.Contracts {
		b.WriteString(c.conformance())
		all := append(c.AllParams(), c.Results...)
		fmt.Fprintf(&b, "func __probe_%s(%s) {\n", c.ID, paramList(all))
		for _, cl := range c.Ensures {
			for m, o := range cl.Olds {
				fmt.Fprintf(&b, "\t%s := %s; _ = %s\n", probeVar(cl.OldFn[m]), o, probeVar(cl.OldFn[m]))
			}
		}
		for _, ml := range c.Modifies {
			if ml.BaseFn != "" {
				fmt.Fprintf(&b, "\t%s := %s; _ = %s\n", probeVar(ml.BaseFn), ml.Base, probeVar(ml.BaseFn))
			}
		}
		for _, cs := range c.Cases {
			fmt.Fprintf(&b, "\t%s := %s; _ = %s\n", probeVar(cs.Fn), cs.Expr, probeVar(cs.Fn))
		}
		b.WriteString("}\n")
		for _, lp := range c.Loops {
			ps := append(c.AllParams(), lp.Locals...)
			fmt.Fprintf(&b, "func __probe_%s_L%d(%s) {\n", c.ID, lp.Ordinal, paramList(ps))
			for _, cl := range lp.Invs {
				for m, o := range cl.Olds {
					fmt.Fprintf(&b, "\t%s := %s; _ = %s\n", probeVar(cl.OldFn[m]), o, probeVar(cl.OldFn[m]))
				}
				for m, o := range cl.Pres {
					fmt.Fprintf(&b, "\t%s := %s; _ = %s\n", probeVar(cl.PreFn[m]), o, probeVar(cl.PreFn[m]))
				}
			}
			b.WriteString("}\n")
		}
	}
	return pc.wrap(b.String())
}

// SetProbeTypes records the types found by pass 1 (map from generated function name to Go type text).
func (pc *PkgContracts) SetProbeTypes(ty map[string]string) error {
	get := func(fn string) (string, error) {
		t, ok := ty[probeVar(fn)]
		if !ok {
			return "", fmt.Errorf("no probe type for %s", fn)
		}
		return t, nil
	}
	for _, c := range pc.Contracts {
		fill := func(cl *Clause) error {
			cl.OldTy, cl.PreTy = nil, nil
			for _, fn := range cl.OldFn {
				t, err := get(fn)
				if err != nil {
					return err
				}
				cl.OldTy = append(cl.OldTy, t)
			}
			for _, fn := range cl.PreFn {
				t, err := get(fn)
				if err != nil {
					return err
				}
				cl.PreTy = append(cl.PreTy, t)
			}
			return nil
		}
		for _, cl := range c.Ensures {
			if err := fill(cl); err != nil {
				return err
			}
		}
		for _, lp := range c.Loops {
			for _, cl := range lp.Invs {
				if err := fill(cl); err != nil {
					return err
				}
			}
		}
		for _, ml := range c.Modifies {
			if ml.BaseFn != "" {
				t, err := get(ml.BaseFn)
				if err != nil {
					return err
				}
				ml.BaseTy = t
			}
		}
		for _, cs := range c.Cases {
			t, err := get(cs.Fn)
			if err != nil {
				return err
			}
			cs.Ty = t
		}
	}
	return nil
}

func hoistParams(prefix string, tys []string) []Param {
	var ps []Param
	for i, t := range tys {
		ps = append(ps, Param{fmt.Sprintf("%s%d", prefix, i), t})
	}
	return ps
}

// GenFinal renders the pass-2 overlay with one Go function per clause.
func (pc *PkgContracts) GenFinal() string {
	var b strings.Builder
	for _, c := range pc.Contracts {
		b.WriteString(c.conformance())
		ps := c.AllParams()
		for _, cl := range c.Requires {
			fmt.Fprintf(&b, "func %s(%s) bool { return %s }\n", cl.Func, paramList(ps), cl.Go)
		}
		for _, cl := range c.Ensures {
			for m, o := range cl.Olds {
				fmt.Fprintf(&b, "func %s(%s) %s { return %s }\n", cl.OldFn[m], paramList(ps), cl.OldTy[m], o)
			}
			all := append(append(append([]Param{}, ps...), c.Results...), hoistParams("__o", cl.OldTy)...)
			fmt.Fprintf(&b, "func %s(%s) bool { return %s }\n", cl.Func, paramList(all), cl.Go)
		}
		for _, ml := range c.Modifies {
			if ml.BaseFn != "" {
				fmt.Fprintf(&b, "func %s(%s) %s { return %s }\n", ml.BaseFn, paramList(ps), ml.BaseTy, ml.Base)
			}
			if ml.Kind == "range" {
				fmt.Fprintf(&b, "func %s(%s) int { return %s }\n", ml.LoFn, paramList(ps), ml.Lo)
				fmt.Fprintf(&b, "func %s(%s) int { return %s }\n", ml.HiFn, paramList(ps), ml.Hi)
			}
		}
		for _, cs := range c.Cases {
			fmt.Fprintf(&b, "func %s(%s) %s { return %s }\n", cs.Fn, paramList(ps), cs.Ty, cs.Expr)
		}
		for _, lp := range c.Loops {
			lps := append(append([]Param{}, ps...), lp.Locals...)
			for _, cl := range lp.Invs {
				for m, o := range cl.Olds {
					fmt.Fprintf(&b, "func %s(%s) %s { return %s }\n", cl.OldFn[m], paramList(ps), cl.OldTy[m], o)
				}
				for m, o := range cl.Pres {
					fmt.Fprintf(&b, "func %s(%s) %s { return %s }\n", cl.PreFn[m], paramList(lps), cl.PreTy[m], o)
				}
				all := append(append(append([]Param{}, lps...), hoistParams("__o", cl.OldTy)...), hoistParams("__p", cl.PreTy)...)
				fmt.Fprintf(&b, "func %s(%s) bool { return %s }\n", cl.Func, paramList(all), cl.Go)
			}
			if lp.Dec != nil {
				fmt.Fprintf(&b, "func %s(%s) int { return int(%s) }\n", lp.Dec.Func, paramList(lps), lp.Dec.Go)
			}
		}
	}
	return pc.wrap(b.String())
}

func (pc *PkgContracts) wrap(body string) string {
	var b strings.Builder
	b.WriteString("//go:build verif\n\npackage " + pc.PkgName + "\n\n")
	var ims []string
	for _, name := range sortedKeys(pc.Imports) {
		re := regexp.MustCompile(`(^|[^A-Za-z0-9_.])` + regexp.QuoteMeta(name) + `\.[A-Za-z_]`)
		if re.MatchString(body) {
			ims = append(ims, fmt.Sprintf("\t%s %q\n", name, pc.Imports[name]))
		}
	}
	if len(ims) > 0 {
		b.WriteString("import (\n" + strings.Join(ims, "") + ")\n")
	}
	if src, err := os.ReadFile(filepath.Join(pc.Dir, ContractFile)); err != nil || !strings.Contains(string(src), "func verifForall(") {
		b.WriteString(helpers)
	}
	b.WriteString(body)
	return b.String()
}
