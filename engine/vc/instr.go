package vc

import (
	"fmt"
	"go/token"
	"go/types"
	"strings"

	"govc/smt"

	"golang.org/x/tools/go/ssa"
)

func (e *Engine) tagNamed(name string) int {
	if id, ok := e.typeTags[name]; ok {
		return id
	}
	id := len(e.typeTags) + 1
	e.typeTags[name] = id
	return id
}

func (e *Engine) execInstr(f *frame, ins ssa.Instruction) {
	X := e.X
	switch x := ins.(type) {
	case *ssa.DebugRef:
		return
	case *ssa.Alloc:
		f.vals[x] = e.doAlloc(f, x)
	case *ssa.BinOp:
		f.vals[x] = e.binop(f, x)
	case *ssa.UnOp:
		f.vals[x] = e.unop(f, x)
	case *ssa.Call:
		f.vals[x] = e.doCall(f, x)
	case *ssa.ChangeType:
		v := e.operand(f, x.X)
		v.T = x.Type()
		if v.Cell == nil && v.Clo == nil {
			if _, ok := x.Type().Underlying().(*types.Pointer); ok && v.Path == "" {
				off := v.C[1]
				old := v
				e.setPtrMeta(&v)
				if v.Root != old.Root || v.RootT != old.RootT {
					if old.Root == RootArr && v.Root == RootArr {
						v.RootT = old.RootT
					}
				}
				_ = off
			}
		}
		f.vals[x] = v
	case *ssa.Convert:
		f.vals[x] = e.convert(f, x)
	case *ssa.Extract:
		t := e.operand(f, x.Tuple)
		if x.Index >= len(t.Tup) {
			bail("tuple result of %s has no component %d (call did not return a value in %s)", x.Tuple.String(), x.Index, f.fn.Name())
		}
		f.vals[x] = t.Tup[x.Index]
	case *ssa.Field:
		v := e.operand(f, x.X)
		st := v.T.Underlying().(*types.Struct)
		lo, hi := fieldRange(st, x.Field)
		r := Val{T: st.Field(x.Field).Type(), C: v.C[lo:hi]}
		e.setPtrMeta(&r)
		f.vals[x] = r
	case *ssa.FieldAddr:
		p := e.operand(f, x.X)
		e.nilCheck(p, x.Pos(), "field")
		st := derefStruct(p.T)
		fld := st.Field(x.Field)
		r := p
		r.T = x.Type()
		if p.Cell != nil {
			bail("address of a field of a cell")
		}
		r.Path = p.Path + "." + fld.Name()
		if at, isArr := fld.Type().Underlying().(*types.Array); isArr && p.Root == RootObj {
			// an array embedded in a struct is an array object of its own (slices of it alias it)
			r = Val{T: x.Type(), C: []*smt.Term{e.subRef(p.ref(), p.RootT, r.Path), X.Const(0, 64)}, Root: RootArr, RootT: typeKey(at.Elem())}
		}
		f.vals[x] = r
	case *ssa.Index:
		arr := e.operand(f, x.X)
		idx := e.toInt(e.operand(f, x.Index))
		if isString(arr.T) {
			e.oblige("bounds", "string index", X.Ult(idx, arr.C[2]), x.Pos())
			h := e.heap(f.st, "arr:uint8/", smt.BV(8))
			f.vals[x] = e.intVal(x.Type(), X.Select(X.Select(h, arr.C[0]), X.BVAdd(arr.C[1], idx)))
			return
		}
		at := arr.T.Underlying().(*types.Array)
		e.oblige("bounds", "index", X.Ult(idx, X.Const(uint64(at.Len()), 64)), x.Pos())
		r := Val{T: at.Elem()}
		for _, c := range arr.C {
			r.C = append(r.C, X.Select(c, idx))
		}
		e.setPtrMeta(&r)
		f.vals[x] = r
	case *ssa.IndexAddr:
		f.vals[x] = e.indexAddr(f, x)
	case *ssa.Slice:
		f.vals[x] = e.sliceOp(f, x)
	case *ssa.MakeSlice:
		f.vals[x] = e.makeSlice(f, x)
	case *ssa.MakeInterface:
		f.vals[x] = e.makeInterface(e.operand(f, x.X), x.Type())
	case *ssa.MakeClosure:
		var bs []Val
		for _, b := range x.Bindings {
			bs = append(bs, e.operand(f, b))
		}
		f.vals[x] = Val{T: x.Type(), C: []*smt.Term{X.Const(0, 32)}, Clo: &Closure{Fn: x.Fn.(*ssa.Function), Bindings: bs}}
	case *ssa.Store:
		p := e.operand(f, x.Addr)
		v := e.operand(f, x.Val)
		if p.Cell == nil {
			e.nilCheck(p, x.Pos(), "store")
			e.frameCheck(p, pointee(p.T), x.Pos())
			if _, isArr := pointee(p.T).Underlying().(*types.Array); !isArr {
				e.preferVisible(f.st, p, v)
			}
		} else if p.Cell.Glob != nil && e.specDepth == 0 {
			e.failNow("frame", "store to package-level variable "+p.Cell.Name, x.Pos())
		}
		if v.Cell == nil && v.Clo == nil {
			v.T = pointee(p.T)
		}
		e.store(f.st, p, v)
	case *ssa.If, *ssa.Jump:
		return
	case *ssa.Return:
		var rv Val
		switch len(x.Results) {
		case 0:
			rv = Val{T: types.NewTuple(), Tup: []Val{}}
		case 1:
			rv = e.operand(f, x.Results[0])
			rv.T = f.fn.Signature.Results().At(0).Type()
		default:
			rv = Val{T: f.fn.Signature.Results(), Tup: []Val{}}
			for i, r := range x.Results {
				v := e.operand(f, r)
				v.T = f.fn.Signature.Results().At(i).Type()
				rv.Tup = append(rv.Tup, v)
			}
		}
		f.rets = append(f.rets, retRec{pc: f.local, val: rv, st: f.st})
	case *ssa.Panic:
		e.oblige("assert", "explicit panic unreachable", X.False, x.Pos())
		f.panics = true
		f.local = X.False
		e.pc = X.False
	case *ssa.TypeAssert:
		f.vals[x] = e.typeAssert(f, x)
	case *ssa.ChangeInterface:
		v := e.operand(f, x.X)
		v.T = x.Type()
		f.vals[x] = v
	case *ssa.SliceToArrayPointer:
		s := e.operand(f, x.X)
		at := pointee(x.Type()).Underlying().(*types.Array)
		e.oblige("bounds", "slice to array pointer", X.Ule(X.Const(uint64(at.Len()), 64), s.ln()), x.Pos())
		r := Val{T: x.Type(), C: []*smt.Term{s.ref(), s.off()}, Root: RootArr, RootT: typeKey(at.Elem())}
		f.vals[x] = r
	case *ssa.Lookup:
		f.vals[x] = e.lookup(f, x)
	case *ssa.MakeMap:
		f.vals[x] = e.makeMap(f, x)
	case *ssa.MapUpdate:
		e.mapUpdate(f, x)
	case *ssa.Range:
		f.vals[x] = e.rangeStart(f, x)
	case *ssa.Next:
		f.vals[x] = e.rangeNext(f, x)
	default:
		bail("instruction %T (%s) in %s", ins, ins, f.fn.Name())
	}
}

func (e *Engine) nilCheck(p Val, pos token.Pos, what string) {
	if p.Cell != nil {
		return
	}
	e.oblige("nil", what, e.X.Not(e.X.Eq(p.ref(), e.X.Const(0, 32))), pos)
}

func (e *Engine) toInt(v Val) *smt.Term {
	// index operands: convert to 64-bit preserving value (sign by type)
	w := widthOf(v.T)
	if w == 64 {
		return v.C[0]
	}
	if isSigned(v.T) {
		return e.X.SignExt(64-w, v.C[0])
	}
	return e.X.ZeroExt(64-w, v.C[0])
}

func (e *Engine) doAlloc(f *frame, x *ssa.Alloc) Val {
	t := pointee(x.Type())
	switch u := t.Underlying().(type) {
	case *types.Array:
		ref := e.newRef(f.st)
		for _, c := range comps(u.Elem()) {
			key := "arr:" + typeKey(u.Elem()) + "/" + c.Suffix
			h := e.heap(f.st, key, c.Sort)
			e.setHeap(f.st, key, e.X.Store(h, ref, e.zeroOf(smt.Array(IntSort, c.Sort))))
		}
		return Val{T: x.Type(), C: []*smt.Term{ref, e.X.Const(0, 64)}, Root: RootArr, RootT: typeKey(u.Elem())}
	case *types.Struct:
		ref := e.newRef(f.st)
		for _, c := range comps(t) {
			key := "obj:" + typeKey(t) + "/" + c.Suffix
			h := e.heap(f.st, key, c.Sort)
			e.setHeap(f.st, key, e.X.Store(h, ref, e.zeroOf(c.Sort)))
		}
		e.zeroEmbeddedArrays(f.st, ref, typeKey(t), "", u)
		return Val{T: x.Type(), C: []*smt.Term{ref, e.X.Const(0, 64)}, Root: RootObj, RootT: typeKey(t)}
	}
	c := &Cell{Name: x.Comment, T: t}
	f.st.Cells[c] = e.zeroVal(t)
	return Val{T: x.Type(), C: []*smt.Term{e.X.Const(0, 32), e.X.Const(0, 64)}, Cell: c}
}

func (e *Engine) indexAddr(f *frame, x *ssa.IndexAddr) Val {
	X := e.X
	base := e.operand(f, x.X)
	idx := e.toInt(e.operand(f, x.Index))
	switch u := base.T.Underlying().(type) {
	case *types.Pointer:
		at := u.Elem().Underlying().(*types.Array)
		e.nilCheck(base, x.Pos(), "index")
		e.oblige("bounds", "index", X.Ult(idx, X.Const(uint64(at.Len()), 64)), x.Pos())
		if base.Root != RootArr || base.Path != "" {
			bail("index into an array nested in a struct")
		}
		return Val{T: x.Type(), C: []*smt.Term{base.ref(), X.BVAdd(base.off(), idx)}, Root: RootArr, RootT: base.RootT}
	case *types.Slice:
		e.oblige("bounds", "index", X.Ult(idx, base.ln()), x.Pos())
		return Val{T: x.Type(), C: []*smt.Term{base.ref(), X.BVAdd(base.off(), idx)}, Root: RootArr, RootT: typeKey(u.Elem())}
	}
	bail("IndexAddr on %s", base.T)
	return Val{}
}

func (e *Engine) sliceOp(f *frame, x *ssa.Slice) Val {
	X := e.X
	base := e.operand(f, x.X)
	var lo, hi, max *smt.Term
	if x.Low != nil {
		lo = e.toInt(e.operand(f, x.Low))
	} else {
		lo = X.Const(0, 64)
	}
	if x.High != nil {
		hi = e.toInt(e.operand(f, x.High))
	}
	if x.Max != nil {
		max = e.toInt(e.operand(f, x.Max))
	}
	switch u := base.T.Underlying().(type) {
	case *types.Pointer:
		at := u.Elem().Underlying().(*types.Array)
		n := X.Const(uint64(at.Len()), 64)
		e.nilCheck(base, x.Pos(), "slice")
		if hi == nil {
			hi = n
		}
		if max == nil {
			max = n
		} else {
			e.oblige("bounds", "slice max", X.Ule(max, n), x.Pos())
		}
		e.oblige("bounds", "slice high", X.Ule(hi, max), x.Pos())
		e.oblige("bounds", "slice low", X.Ule(lo, hi), x.Pos())
		if base.Root != RootArr || base.Path != "" {
			bail("slicing an array nested in a struct")
		}
		return Val{T: x.Type(), C: []*smt.Term{base.ref(), X.BVAdd(base.off(), lo), X.BVSub(hi, lo), X.BVSub(max, lo)}, Bound: int(at.Len())}
	case *types.Slice:
		if hi == nil {
			hi = base.ln()
		}
		if max == nil {
			max = base.cp()
		} else {
			e.oblige("bounds", "slice max", X.Ule(max, base.cp()), x.Pos())
		}
		e.oblige("bounds", "slice high", X.Ule(hi, max), x.Pos())
		e.oblige("bounds", "slice low", X.Ule(lo, hi), x.Pos())
		r := Val{T: x.Type(), C: []*smt.Term{base.ref(), X.BVAdd(base.off(), lo), X.BVSub(hi, lo), X.BVSub(max, lo)}, Bound: base.Bound}
		return r
	case *types.Basic: // string
		if hi == nil {
			hi = base.ln()
		}
		e.oblige("bounds", "slice high", X.Ule(hi, base.ln()), x.Pos())
		e.oblige("bounds", "slice low", X.Ule(lo, hi), x.Pos())
		return Val{T: x.Type(), C: []*smt.Term{base.ref(), X.BVAdd(base.off(), lo), X.BVSub(hi, lo)}}
	}
	bail("Slice on %s", base.T)
	return Val{}
}

func (e *Engine) makeSlice(f *frame, x *ssa.MakeSlice) Val {
	X := e.X
	ln := e.toInt(e.operand(f, x.Len))
	cp := e.toInt(e.operand(f, x.Cap))
	lim := X.Const(1<<40, 64)
	e.oblige("bounds", "make len", X.And(X.Sle(X.Const(0, 64), ln), X.Ule(ln, lim)), x.Pos())
	e.oblige("bounds", "make cap", X.And(X.Ule(ln, cp), X.Ule(cp, lim)), x.Pos())
	el := x.Type().Underlying().(*types.Slice).Elem()
	ref := e.newArrayObj(f.st, el)
	return Val{T: x.Type(), C: []*smt.Term{ref, X.Const(0, 64), ln, cp}}
}

// newArrayObj allocates a zeroed backing array of element type el.
func (e *Engine) newArrayObj(st *State, el types.Type) *smt.Term {
	ref := e.newRef(st)
	for _, c := range comps(el) {
		key := "arr:" + typeKey(el) + "/" + c.Suffix
		h := e.heap(st, key, c.Sort)
		e.setHeap(st, key, e.X.Store(h, ref, e.zeroOf(smt.Array(IntSort, c.Sort))))
	}
	return ref
}

func (e *Engine) makeInterface(v Val, t types.Type) Val {
	X := e.X
	dyn := v.T
	tag := X.Const(uint64(e.tagOf(dyn)), 32)
	var payload *smt.Term
	switch u := dyn.Underlying().(type) {
	case *types.Pointer:
		if v.Cell != nil || v.Path != "" {
			bail("interior/cell pointer converted to interface")
		}
		payload = X.ZeroExt(32, v.ref())
		_ = u
	case *types.Basic:
		switch {
		case u.Info()&types.IsInteger != 0:
			payload = e.toInt(v)
		case u.Info()&types.IsBoolean != 0:
			payload = X.Ite(v.C[0], X.Const(1, 64), X.Const(0, 64))
		default:
			payload = e.boxVal(v)
		}
	case *types.Signature:
		bail("function value converted to interface")
	default:
		payload = e.boxVal(v)
	}
	r := Val{T: t, C: []*smt.Term{tag, payload}}
	return r
}

// boxVal stores a non-scalar dynamic value in an uninterpreted box; equal contents give equal boxes.
func (e *Engine) boxVal(v Val) *smt.Term {
	if v.Cell != nil || v.Clo != nil {
		bail("boxing a static value")
	}
	return e.X.App("box|"+typeKey(v.T), IntSort, v.C...)
}

func (e *Engine) unboxVal(t types.Type, payload *smt.Term) Val {
	// unbox(box(x)) = x, also through conditionals
	if payload.Op == "app" && payload.Name == strings.ReplaceAll("box|"+typeKey(t), "|", "!") && len(payload.Args) == len(comps(t)) {
		r := Val{T: t, C: append([]*smt.Term{}, payload.Args...)}
		e.setPtrMeta(&r)
		return r
	}
	if payload.Op == "ite" {
		return e.iteVal(payload.Args[0], e.unboxVal(t, payload.Args[1]), e.unboxVal(t, payload.Args[2]))
	}
	r := Val{T: t}
	for i, c := range comps(t) {
		r.C = append(r.C, e.X.App(fmt.Sprintf("unbox|%s|%d", typeKey(t), i), c.Sort, payload))
	}
	e.setPtrMeta(&r)
	return r
}

func (e *Engine) fromInterface(v Val, t types.Type) Val {
	X := e.X
	switch u := t.Underlying().(type) {
	case *types.Pointer:
		r := Val{T: t, C: []*smt.Term{X.Extract(31, 0, v.C[1]), X.Const(0, 64)}}
		e.setPtrMeta(&r)
		return r
	case *types.Basic:
		switch {
		case u.Info()&types.IsInteger != 0:
			return e.intVal(t, X.Extract(widthOf(t)-1, 0, v.C[1]))
		case u.Info()&types.IsBoolean != 0:
			return e.boolVal(X.Not(X.Eq(v.C[1], X.Const(0, 64))))
		}
	}
	return e.unboxVal(t, v.C[1])
}

func (e *Engine) typeAssert(f *frame, x *ssa.TypeAssert) Val {
	X := e.X
	v := e.operand(f, x.X)
	if _, ok := x.AssertedType.Underlying().(*types.Interface); ok {
		// interface-to-interface: succeeds iff non-nil and (closed world) the dynamic type implements it.
		ok := e.implementsTag(v.C[0], x.AssertedType)
		r := v
		r.T = x.AssertedType
		if x.CommaOk {
			nilv := e.zeroVal(x.AssertedType)
			return Val{T: x.Type(), Tup: []Val{e.iteVal(ok, r, nilv), e.boolVal(ok)}}
		}
		e.oblige("assert", "type assertion", ok, x.Pos())
		return r
	}
	tag := X.Const(uint64(e.tagOf(x.AssertedType)), 32)
	ok := X.Eq(v.C[0], tag)
	r := e.fromInterface(v, x.AssertedType)
	if x.CommaOk {
		z := e.zeroVal(x.AssertedType)
		return Val{T: x.Type(), Tup: []Val{e.iteVal(ok, r, z), e.boolVal(ok)}}
	}
	e.oblige("assert", "type assertion", ok, x.Pos())
	return r
}

// implementsTag: disjunction over known concrete types implementing the interface.
func (e *Engine) implementsTag(tag *smt.Term, it types.Type) *smt.Term {
	iface := it.Underlying().(*types.Interface)
	var alts []*smt.Term
	for _, t := range e.concreteTypes() {
		if types.Implements(t, iface) {
			alts = append(alts, e.X.Eq(tag, e.X.Const(uint64(e.tagOf(t)), 32)))
		}
	}
	return e.X.Or(alts...)
}

func (e *Engine) binop(f *frame, x *ssa.BinOp) Val {
	X := e.X
	a := e.operand(f, x.X)
	b := e.operand(f, x.Y)
	t := x.X.Type()
	switch x.Op {
	case token.EQL, token.NEQ:
		eq := e.valEq(a, b, t)
		if x.Op == token.NEQ {
			eq = X.Not(eq)
		}
		return e.boolVal(eq)
	}
	if isBool(t) {
		switch x.Op {
		case token.AND, token.LAND:
			return e.boolVal(X.And(a.C[0], b.C[0]))
		case token.OR, token.LOR:
			return e.boolVal(X.Or(a.C[0], b.C[0]))
		}
		bail("bool op %s", x.Op)
	}
	if isString(t) {
		bail("string operator %s", x.Op)
	}
	if !isInt(t) {
		bail("binop %s on %s", x.Op, t)
	}
	p, q := a.C[0], b.C[0]
	signed := isSigned(t)
	w := widthOf(t)
	switch x.Op {
	case token.ADD:
		return e.intVal(x.Type(), X.BVAdd(p, q))
	case token.SUB:
		return e.intVal(x.Type(), X.BVSub(p, q))
	case token.MUL:
		return e.intVal(x.Type(), X.BVMul(p, q))
	case token.QUO:
		e.oblige("div", "divisor non-zero", X.Not(X.Eq(q, X.Const(0, w))), x.Pos())
		if signed {
			return e.intVal(x.Type(), X.BVSdiv(p, q))
		}
		return e.intVal(x.Type(), X.BVUdiv(p, q))
	case token.REM:
		e.oblige("div", "divisor non-zero", X.Not(X.Eq(q, X.Const(0, w))), x.Pos())
		if signed {
			return e.intVal(x.Type(), X.BVSrem(p, q))
		}
		return e.intVal(x.Type(), X.BVUrem(p, q))
	case token.AND:
		return e.intVal(x.Type(), X.BVAnd(p, q))
	case token.OR:
		return e.intVal(x.Type(), X.BVOr(p, q))
	case token.XOR:
		return e.intVal(x.Type(), X.BVXor(p, q))
	case token.AND_NOT:
		return e.intVal(x.Type(), X.BVAnd(p, X.BVNot(q)))
	case token.SHL, token.SHR:
		yt := x.Y.Type()
		yw := widthOf(yt)
		if isSigned(yt) {
			e.oblige("assert", "shift count non-negative", X.Sle(X.Const(0, yw), q), x.Pos())
		}
		var cnt *smt.Term
		switch {
		case yw == w:
			cnt = q
		case yw < w:
			cnt = X.ZeroExt(w-yw, q)
		default:
			big := X.Ule(X.Const(uint64(w), yw), q)
			cnt = X.Ite(big, X.Const(uint64(w), w), X.Extract(w-1, 0, q))
		}
		if x.Op == token.SHL {
			return e.intVal(x.Type(), X.BVShl(p, cnt))
		}
		if signed {
			return e.intVal(x.Type(), X.BVAshr(p, cnt))
		}
		return e.intVal(x.Type(), X.BVLshr(p, cnt))
	case token.LSS:
		if signed {
			return e.boolVal(X.Slt(p, q))
		}
		return e.boolVal(X.Ult(p, q))
	case token.LEQ:
		if signed {
			return e.boolVal(X.Sle(p, q))
		}
		return e.boolVal(X.Ule(p, q))
	case token.GTR:
		if signed {
			return e.boolVal(X.Slt(q, p))
		}
		return e.boolVal(X.Ult(q, p))
	case token.GEQ:
		if signed {
			return e.boolVal(X.Sle(q, p))
		}
		return e.boolVal(X.Ule(q, p))
	}
	bail("binop %s", x.Op)
	return Val{}
}

// valEq is Go's == on two values of static type t.
func (e *Engine) valEq(a, b Val, t types.Type) *smt.Term {
	X := e.X
	switch u := t.Underlying().(type) {
	case *types.Array:
		if u.Len() > 512 {
			bail("comparison of large arrays")
		}
		var cs []*smt.Term
		for k := int64(0); k < u.Len(); k++ {
			idx := X.Const(uint64(k), 64)
			for i := range a.C {
				cs = append(cs, X.Eq(X.Select(a.C[i], idx), X.Select(b.C[i], idx)))
			}
		}
		return X.And(cs...)
	case *types.Pointer:
		if a.Cell != nil || b.Cell != nil {
			if e.isNilConst(a) || e.isNilConst(b) {
				return X.False
			}
			return X.BoolConst(a.Cell == b.Cell)
		}
		if a.Path != b.Path && !e.isNilConst(a) && !e.isNilConst(b) {
			return X.False
		}
		return X.And(X.Eq(a.C[0], b.C[0]), X.Eq(a.C[1], b.C[1]))
	case *types.Slice, *types.Map, *types.Signature:
		// only comparison with nil is legal
		if a.Clo != nil || b.Clo != nil {
			return X.False
		}
		return X.Eq(a.C[0], b.C[0])
	case *types.Basic:
		if u.Info()&types.IsString != 0 {
			return e.stringEq(a, b)
		}
		if u.Kind() == types.UntypedNil {
			return X.True
		}
	case *types.Interface:
		// mixed interface / concrete comparisons are normalised by go/ssa via MakeInterface;
		// comparison with nil looks at the dynamic type only
		if e.isNilIface(a) {
			return X.Eq(b.C[0], X.Const(0, 32))
		}
		if e.isNilIface(b) {
			return X.Eq(a.C[0], X.Const(0, 32))
		}
	}
	if len(a.C) != len(b.C) {
		bail("== on values of different shape (%s)", t)
	}
	var cs []*smt.Term
	for i := range a.C {
		cs = append(cs, X.Eq(a.C[i], b.C[i]))
	}
	return X.And(cs...)
}

func (e *Engine) stringEq(a, b Val) *smt.Term {
	X := e.X
	// constant vs constant
	if a.C[0].IsConst() && b.C[0].IsConst() && a.C[2].IsConst() && b.C[2].IsConst() && a.C[1].IsConst() && b.C[1].IsConst() {
		sa, oka := e.strLitByRef(a.C[0].V)
		sb, okb := e.strLitByRef(b.C[0].V)
		if a.C[2].V == 0 && b.C[2].V == 0 {
			return X.True
		}
		if (oka || a.C[2].V == 0) && (okb || b.C[2].V == 0) {
			if a.C[2].V == 0 {
				sa = ""
			} else {
				sa = sa[a.C[1].V : a.C[1].V+a.C[2].V]
			}
			if b.C[2].V == 0 {
				sb = ""
			} else {
				sb = sb[b.C[1].V : b.C[1].V+b.C[2].V]
			}
			return X.BoolConst(sa == sb)
		}
	}
	// general case: equal lengths and equal bytes (strings are immutable byte objects)
	return e.bytesEq(a.C[0], a.C[1], a.C[2], b.C[0], b.C[1], b.C[2])
}

// bytesEq: two byte ranges (ref, off, len) have the same length and contents.
func (e *Engine) bytesEq(ra, oa, la, rb, ob, lb *smt.Term) *smt.Term {
	X := e.X
	st := e.curState
	if st == nil {
		bail("comparison of non-constant strings outside a function body")
	}
	h := e.heap(st, "arr:uint8/", smt.BV(8))
	A, B := X.Select(h, ra), X.Select(h, rb)
	n := -1
	if la.IsConst() && la.V <= 256 {
		n = int(la.V)
	} else if lb.IsConst() && lb.V <= 256 {
		n = int(lb.V)
	}
	if n >= 0 {
		cs := []*smt.Term{X.Eq(la, lb)}
		for k := 0; k < n; k++ {
			kk := X.Const(uint64(k), 64)
			cs = append(cs, X.Eq(X.Select(A, X.BVAdd(oa, kk)), X.Select(B, X.BVAdd(ob, kk))))
		}
		return X.And(cs...)
	}
	j := X.BVar("sj", IntSort)
	return X.And(X.Eq(la, lb), X.Forall([]*smt.Term{j}, X.Implies(X.Ult(j, la), X.Eq(X.Select(A, X.BVAdd(oa, j)), X.Select(B, X.BVAdd(ob, j))))))
}

func (e *Engine) unop(f *frame, x *ssa.UnOp) Val {
	X := e.X
	v := e.operand(f, x.X)
	switch x.Op {
	case token.MUL:
		if v.Cell == nil {
			e.nilCheck(v, x.Pos(), "load")
		}
		return e.load(f.st, v)
	case token.SUB:
		return e.intVal(x.Type(), X.BVNeg(v.C[0]))
	case token.NOT:
		return e.boolVal(X.Not(v.C[0]))
	case token.XOR:
		return e.intVal(x.Type(), X.BVNot(v.C[0]))
	}
	bail("unop %s", x.Op)
	return Val{}
}

func (e *Engine) convert(f *frame, x *ssa.Convert) Val {
	X := e.X
	v := e.operand(f, x.X)
	from, to := x.X.Type(), x.Type()
	switch {
	case isInt(from) && isInt(to):
		fw, tw := widthOf(from), widthOf(to)
		t := v.C[0]
		switch {
		case tw < fw:
			t = X.Extract(tw-1, 0, t)
		case tw > fw:
			if isSigned(from) {
				t = X.SignExt(tw-fw, t)
			} else {
				t = X.ZeroExt(tw-fw, t)
			}
		}
		return e.intVal(to, t)
	case isString(to) && isByteSlice(from):
		// string(b): immutable snapshot of the bytes
		ref := e.snapshotBytes(f.st, v, false)
		return Val{T: to, C: []*smt.Term{ref, v.off(), v.ln()}}
	case isByteSlice(to) && isString(from):
		ref := e.snapshotBytes(f.st, Val{T: to, C: []*smt.Term{v.C[0], v.C[1], v.C[2], v.C[2]}}, false)
		return Val{T: to, C: []*smt.Term{ref, v.C[1], v.C[2], v.C[2]}}
	}
	if _, ok := to.Underlying().(*types.Pointer); ok {
		if _, ok := from.Underlying().(*types.Pointer); ok {
			v.T = to
			return v
		}
	}
	bail("conversion %s -> %s", from, to)
	return Val{}
}

func isByteSlice(t types.Type) bool {
	s, ok := t.Underlying().(*types.Slice)
	if !ok {
		return false
	}
	b, ok := s.Elem().Underlying().(*types.Basic)
	return ok && b.Kind() == types.Uint8
}

// snapshotBytes allocates a fresh array object equal to the slice's whole backing array (the
// caller keeps the slice's offset).
func (e *Engine) snapshotBytes(st *State, s Val, ghost bool) *smt.Term {
	// the whole backing array is copied (every component of the element type); the snapshot keeps
	// the slice's offset
	X := e.X
	sl, ok := s.T.Underlying().(*types.Slice)
	if !ok {
		bail("verifSnap of %s", s.T)
	}
	// ghost snapshots (verifSnap) live in a region of their own (0x08000000..): they are neither older than
	// the call nor "fresh" allocations of it, so no write set can ever contain them
	var ref *smt.Term
	if ghost {
		ref = X.Const(uint64(0x08000000+e.snapN), 32)
		e.snapN++
	} else {
		ref = e.newRef(st)
	}
	for _, c := range comps(sl.Elem()) {
		key := "arr:" + typeKey(sl.Elem()) + "/" + c.Suffix
		h := e.heap(st, key, c.Sort)
		e.setHeap(st, key, X.Store(h, ref, X.Select(h, s.ref())))
		if ghost {
			e.snaps = append(e.snaps, snapRec{key, ref, X.Select(h, s.ref())})
		}
	}
	return ref
}

func (e *Engine) isNilIface(v Val) bool {
	return len(v.C) == 2 && v.C[0].IsConst() && v.C[0].V == 0 && v.C[1].IsConst() && v.C[1].V == 0
}

// zeroEmbeddedArrays zero-initialises the array objects embedded in a freshly allocated struct.
func (e *Engine) zeroEmbeddedArrays(st *State, ref *smt.Term, rootT, path string, u *types.Struct) {
	for i := 0; i < u.NumFields(); i++ {
		fl := u.Field(i)
		p := path + "." + fl.Name()
		switch ft := fl.Type().Underlying().(type) {
		case *types.Array:
			sr := e.subRef(ref, rootT, p)
			for _, c := range comps(ft.Elem()) {
				key := "arr:" + typeKey(ft.Elem()) + "/" + c.Suffix
				h := e.heap(st, key, c.Sort)
				e.setHeap(st, key, e.X.Store(h, sr, e.zeroOf(smt.Array(IntSort, c.Sort))))
			}
		case *types.Struct:
			e.zeroEmbeddedArrays(st, ref, rootT, p, ft)
		}
	}
}
