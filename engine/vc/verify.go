package vc

import (
	"fmt"
	"go/token"
	"go/types"
	"os"
	"sort"
	"strings"
	"time"

	"govc/smt"

	"golang.org/x/tools/go/ssa"
)

// FuncReport is the outcome of generating obligations for one function under contract.
type FuncReport struct {
	Name        string
	QName       string
	Props       []string
	Obls        []*Obligation
	Assumptions []*smt.Term
	GoalAssume  map[int]bool
	Observe     []Observable
	Err         string // non-empty: function is out of reach (unsupported construct)
	Inlined     []string
	UsedStd     []string
	Params      []ParamInfo
	CoverPC     *smt.Term // requires ∧ typing: must be satisfiable (vacuity check)
	ExitPC      *smt.Term // path condition of normal return: must be satisfiable
	Trusted     bool
	Path        string // branch decisions of this report (path-split functions)
	Cases       []CaseBits
}

// CaseBits: hard obligations may be proved by enumerating the masked bits of Term (an input byte).
type CaseBits struct {
	Term *smt.Term
	Mask uint64
}

type ParamInfo struct {
	Name string
	Type string
	Kind string // int | bool | bytes188 | byteslice | other
	Len  int
}

// Verify generates all obligations for one function under contract. With "paths" in the
// contract the function body is explored one branch decision at a time (no state merging at
// its own if-statements); every complete decision vector yields one report.
func (e *Engine) Verify(fc *FnContract) []*FuncReport {
	if !fc.C.SplitPaths {
		e.forced = nil
		return []*FuncReport{e.verifyOnce(fc, "")}
	}
	type item struct {
		forced map[string]bool
		label  string
	}
	work := []item{{map[string]bool{}, ""}}
	var out []*FuncReport
	for len(work) > 0 {
		it := work[len(work)-1]
		work = work[:len(work)-1]
		e.forced = it.forced
		e.undecided = nil
		e.undecidedSeen = map[string]bool{}
		t0 := time.Now()
		rep := e.verifyOnce(fc, it.label)
		if os.Getenv("GOVC_DEBUG") != "" {
			fmt.Fprintf(os.Stderr, "path %q: %d obligations, %d undecided, %.2fs (work %d, done %d) undecided=%v forced=%v\n", it.label, len(rep.Obls), len(e.undecided), time.Since(t0).Seconds(), len(work), len(out), e.undecided, it.forced)
		}
		if rep.Err != "" {
			e.forced = nil
			return []*FuncReport{rep}
		}
		if len(e.undecided) == 0 {
			out = append(out, rep)
			if len(out) > 256 {
				rep.Err = "unsupported: more than 256 paths"
				e.forced = nil
				return []*FuncReport{rep}
			}
			continue
		}
		u := e.undecided[0]
		for _, side := range []bool{false, true} {
			m := map[string]bool{}
			for k, v := range it.forced {
				m[k] = v
			}
			m[u] = side
			l := "F"
			if side {
				l = "T"
			}
			work = append(work, item{m, it.label + l})
		}
	}
	e.forced = nil
	return out
}

func (e *Engine) verifyOnce(fc *FnContract, path string) (rep *FuncReport) {
	e.reset()
	e.X.ResetFresh()
	e.callCtx = ""
	rep = &FuncReport{Name: e.nameOf(fc.Fn), QName: fc.C.QName(), Props: fc.C.Props, Trusted: fc.C.Trusted, Path: path}
	defer func() {
		if r := recover(); r != nil {
			if u, ok := r.(unsupported); ok {
				rep.Err = u.Error()
				return
			}
			panic(r)
		}
	}()
	if fc.C.Trusted {
		return rep
	}
	X := e.X
	fn := fc.Fn
	e.curName = rep.Name
	if path != "" {
		e.curName = rep.Name + "@" + path
	}
	e.curProps = fc.C.Props
	e.verifying = fn
	st := &State{Heaps: map[string]*smt.Term{}, Cells: map[*Cell]Val{}}
	e.alloc0 = X.Var("alloc0", RefSort)
	X.FreshBase[e.alloc0.ID()] = true
	st.Alloc = e.alloc0
	e.pc = X.True
	e.assume(X.Ule(X.Const(0x100000, 32), e.alloc0))
	e.assume(X.Ule(e.alloc0, X.Const(0x7fffffff, 32)))
	e.freshBase = e.alloc0
	var args []Val
	cps := fc.C.AllParams()
	for i, p := range fn.Params {
		name := p.Name()
		if i < len(cps) {
			name = cps[i].Name
		}
		v := e.freshVal("in_"+name, p.Type())
		e.markOld(v)
		e.assumeWellTyped(st, v)
		e.assumeParamShape(v)
		args = append(args, v)
		rep.Params = append(rep.Params, e.observeParam(name, v, st))
	}
	rep.Observe = e.Observe
	// requires
	for _, cl := range fc.C.Requires {
		v, _ := e.evalSpec(fn.Pkg, cl.Func, args, st)
		e.assume(v.C[0])
	}
	rep.CoverPC = X.True
	for _, cs := range fc.C.Cases {
		v, _ := e.evalSpec(fn.Pkg, cs.Fn, args, st)
		if len(v.C) == 1 && v.C[0].S.Kind == smt.KBV && !v.C[0].IsConst() {
			rep.Cases = append(rep.Cases, CaseBits{v.C[0], cs.Mask})
		}
	}
	// old-expressions
	olds := map[string]Val{}
	for _, cl := range fc.C.Ensures {
		for _, of := range cl.OldFn {
			v, st2 := e.evalSpec(fn.Pkg, of, args, st)
			st = st2
			olds[of] = v
		}
	}
	// frame
	e.frameLocs = e.evalModifies(fc, args, st)
	e.frameOn = true
	res, out, rpc := e.runFunc(fn, args, nil, st, fc)
	rep.ExitPC = rpc
	e.frameOn = false
	if !rpc.IsFalse() {
		e.pc = rpc
		rs := flatResults(res, fn.Signature.Results().Len())
		for _, cl := range fc.C.Ensures {
			as := append(append([]Val{}, args...), rs...)
			for _, of := range cl.OldFn {
				as = append(as, olds[of])
			}
			v, _ := e.evalSpec(fn.Pkg, cl.Func, as, out)
			e.obligeAt("ensures", fmt.Sprintf("%d:%s", cl.Idx, trunc(cl.Text, 70)), v.C[0], fn.Pos())
			// later clauses may rely on earlier ones (each is proved, in order)
			na := len(e.Assumptions)
			e.assume(v.C[0])
			if len(e.Assumptions) > na {
				e.GoalAssume[na] = true
			}
		}
	}
	rep.Obls = e.Obls
	rep.Assumptions = e.Assumptions
	rep.GoalAssume = e.GoalAssume
	for k := range e.Inlined {
		rep.Inlined = append(rep.Inlined, k)
	}
	for k := range e.UsedStd {
		rep.UsedStd = append(rep.UsedStd, k)
	}
	sort.Strings(rep.Inlined)
	sort.Strings(rep.UsedStd)
	return rep
}

// obligeAt is oblige with an explicit stable name part (clause index instead of a running ordinal).
func (e *Engine) obligeAt(kind, detail string, goal *smt.Term, pos token.Pos) {
	name := e.curName + "#" + kind + ":" + detail
	ob := &Obligation{Name: name, Kind: kind, Func: e.curName, Detail: detail, NAssume: len(e.Assumptions), PC: e.pc, Goal: goal, Props: e.curProps}
	if pos.IsValid() {
		p := e.Prog.Fset.Position(pos)
		ob.Pos = fmt.Sprintf("%s:%d", p.Filename, p.Line)
	}
	if goal.IsTrue() {
		ob.Verdict = "trivial"
	}
	e.Obls = append(e.Obls, ob)
}

// assumeParamShape: pointers to arrays passed by callers point at whole arrays.
func (e *Engine) assumeParamShape(v Val) {
	if _, ok := v.T.Underlying().(*types.Pointer); ok && v.Cell == nil {
		e.assume(e.X.Eq(v.C[1], e.X.Const(0, 64)))
		v.C[1] = e.X.Const(0, 64)
	}
}

// observeParam registers the SMT terms that describe an input, for counterexample replay.
func (e *Engine) observeParam(name string, v Val, st *State) ParamInfo {
	X := e.X
	pi := ParamInfo{Name: name, Type: shortType(v.T), Kind: "other"}
	add := func(n string, t *smt.Term) { e.Observe = append(e.Observe, Observable{n, t}) }
	switch u := v.T.Underlying().(type) {
	case *types.Basic:
		switch {
		case u.Info()&types.IsInteger != 0:
			pi.Kind = "int"
			add(name, v.C[0])
		case u.Info()&types.IsBoolean != 0:
			pi.Kind = "bool"
			add(name, v.C[0])
		}
	case *types.Pointer:
		if at, ok := u.Elem().Underlying().(*types.Array); ok && typeKey(at.Elem()) == "uint8" && at.Len() <= 256 {
			pi.Kind = "bytearray"
			pi.Len = int(at.Len())
			add(name+".ref", v.ref())
			h := e.heap(st, "arr:uint8/", smt.BV(8))
			arr := X.Select(h, v.ref())
			for k := 0; k < pi.Len; k++ {
				add(fmt.Sprintf("%s[%d]", name, k), X.Select(arr, X.Const(uint64(k), 64)))
			}
		}
	case *types.Slice:
		if typeKey(u.Elem()) == "uint8" {
			pi.Kind = "byteslice"
			pi.Len = 64
			add(name+".ref", v.ref())
			add(name+".len", v.ln())
			add(name+".cap", v.cp())
			h := e.heap(st, "arr:uint8/", smt.BV(8))
			arr := X.Select(h, v.ref())
			for k := 0; k < pi.Len; k++ {
				add(fmt.Sprintf("%s[%d]", name, k), X.Select(arr, X.BVAdd(v.off(), X.Const(uint64(k), 64))))
			}
		}
	}
	return pi
}

// ---- pieces not needed by the first clients; they bail so the function is reported out of reach.

func (e *Engine) invoke(f *frame, x *ssa.Call, recv Val, m *types.Func, args []Val) Val {
	bail("interface method call %s", m.Name())
	return Val{}
}
func (e *Engine) appendBuiltin(f *frame, x *ssa.Call, args []Val) Val {
	bail("append")
	return Val{}
}
func (e *Engine) lookup(f *frame, x *ssa.Lookup) Val {
	X := e.X
	base := e.operand(f, x.X)
	if isString(base.T) {
		idx := e.toInt(e.operand(f, x.Index))
		e.oblige("bounds", "string index", X.Ult(idx, base.C[2]), x.Pos())
		h := e.heap(f.st, "arr:uint8/", smt.BV(8))
		return e.intVal(x.Type(), X.Select(X.Select(h, base.C[0]), X.BVAdd(base.C[1], idx)))
	}
	bail("map lookup")
	return Val{}
}
func (e *Engine) makeMap(f *frame, x *ssa.MakeMap) Val  { bail("make(map)"); return Val{} }
func (e *Engine) mapUpdate(f *frame, x *ssa.MapUpdate)  { bail("map update") }
func (e *Engine) mapLen(f *frame, m Val) Val            { bail("len(map)"); return Val{} }
func (e *Engine) mapDelete(f *frame, m, k Val)          { bail("delete") }
func (e *Engine) rangeStart(f *frame, x *ssa.Range) Val { bail("range over map/string"); return Val{} }
func (e *Engine) rangeNext(f *frame, x *ssa.Next) Val   { bail("range next"); return Val{} }
func (e *Engine) concreteTypes() []types.Type           { return nil }
func (e *Engine) stdModel(f *frame, fn *ssa.Function, args []Val, pos token.Pos) (Val, bool) {
	return Val{}, false
}

// markOld records that the references of an input value predate every allocation of the call.
func (e *Engine) markOld(v Val) {
	if v.Tup != nil {
		for _, t := range v.Tup {
			e.markOld(t)
		}
		return
	}
	for i, c := range comps(v.T) {
		if c.Sort == RefSort && (strings.HasSuffix(c.Suffix, ".r") || strings.HasSuffix(c.Suffix, ".p")) {
			e.X.OldRef[v.C[i].ID()] = true
		}
	}
}
