package vc

import (
	"fmt"
	"go/token"
	"go/types"
	"os"
	"sort"
	"strings"
	"time"

	"govc/smt"

	"golang.org/x/tools/go/ssa"
)

// FuncReport is the outcome of generating obligations for one function under contract.
type FuncReport struct {
	Name        string
	QName       string
	Props       []string
	Obls        []*Obligation
	Assumptions []*smt.Term
	GoalAssume  map[int]bool
	Observe     []Observable
	Err         string // non-empty: function is out of reach (unsupported construct)
	Inlined     []string
	UsedStd     []string
	Params      []ParamInfo
	CoverPC     *smt.Term // requires ∧ typing: must be satisfiable (vacuity check)
	ExitPC      *smt.Term // path condition of normal return: must be satisfiable
	Trusted     bool
	Path        string // branch decisions of this report (path-split functions)
	Cases       []CaseBits
}

// CaseBits: hard obligations may be proved by enumerating the masked bits of Term (an input byte).
type CaseBits struct {
	Term *smt.Term
	Mask uint64
}

type ParamInfo struct {
	Name string
	Type string
	Kind string // int | bool | bytes188 | byteslice | other
	Len  int
}

// Verify generates all obligations for one function under contract. With "paths" in the
// contract the function body is explored one branch decision at a time (no state merging at
// its own if-statements); every complete decision vector yields one report.
func (e *Engine) Verify(fc *FnContract) []*FuncReport {
	if !fc.C.SplitPaths {
		e.forced = nil
		return []*FuncReport{e.verifyOnce(fc, "")}
	}
	type item struct {
		forced map[string]bool
		label  string
	}
	work := []item{{map[string]bool{}, ""}}
	var out []*FuncReport
	for len(work) > 0 {
		it := work[len(work)-1]
		work = work[:len(work)-1]
		e.forced = it.forced
		e.undecided = nil
		e.undecidedSeen = map[string]bool{}
		t0 := time.Now()
		rep := e.verifyOnce(fc, it.label)
		if os.Getenv("GOVC_DEBUG") != "" {
			fmt.Fprintf(os.Stderr, "path %q: %d obligations, %d undecided, %.2fs (work %d, done %d) undecided=%v forced=%v\n", it.label, len(rep.Obls), len(e.undecided), time.Since(t0).Seconds(), len(work), len(out), e.undecided, it.forced)
		}
		if rep.Err != "" {
			e.forced = nil
			return []*FuncReport{rep}
		}
		if len(e.undecided) == 0 {
			out = append(out, rep)
			if len(out) > 256 {
				rep.Err = "unsupported: more than 256 paths"
				e.forced = nil
				return []*FuncReport{rep}
			}
			continue
		}
		u := e.undecided[0]
		for _, side := range []bool{false, true} {
			m := map[string]bool{}
			for k, v := range it.forced {
				m[k] = v
			}
			m[u] = side
			l := "F"
			if side {
				l = "T"
			}
			work = append(work, item{m, it.label + l})
		}
	}
	e.forced = nil
	return out
}

func (e *Engine) verifyOnce(fc *FnContract, path string) (rep *FuncReport) {
	e.reset()
	e.X.ResetFresh()
	e.callCtx = ""
	rep = &FuncReport{Name: e.nameOf(fc.Fn), QName: fc.C.QName(), Props: fc.C.Props, Trusted: fc.C.Trusted, Path: path}
	defer func() {
		if r := recover(); r != nil {
			if u, ok := r.(unsupported); ok {
				rep.Err = u.Error()
				return
			}
			panic(r)
		}
	}()
	if fc.C.Trusted {
		return rep
	}
	X := e.X
	fn := fc.Fn
	e.curName = rep.Name
	if path != "" {
		e.curName = rep.Name + "@" + path
	}
	e.curProps = fc.C.Props
	e.verifying = fn
	st := &State{Heaps: map[string]*smt.Term{}, Cells: map[*Cell]Val{}}
	e.alloc0 = X.Var("alloc0", RefSort)
	e.snapN = 0
	e.snaps = nil
	e.h0facts = map[int]bool{}
	X.FreshBase[e.alloc0.ID()] = true
	st.Alloc = e.alloc0
	e.pc = X.True
	e.applyInit(st, fn)
	e.assume(X.Ule(X.Const(0x100000, 32), e.alloc0))
	e.assume(X.Ule(e.alloc0, X.Const(0x07ffffff, 32)))
	e.freshBase = e.alloc0
	var args []Val
	cps := fc.C.AllParams()
	for i, p := range fn.Params {
		name := p.Name()
		if i < len(cps) {
			name = cps[i].Name
		}
		v := e.freshVal("in_"+name, p.Type())
		e.markOld(v)
		e.assumeWellTyped(st, v)
		e.assumeParamShape(v)
		args = append(args, v)
		rep.Params = append(rep.Params, e.observeParam(name, v, st))
	}
	rep.Observe = e.Observe
	// requires
	for _, cl := range fc.C.Requires {
		v, _ := e.evalSpec(fn.Pkg, cl.Func, args, st)
		e.assume(v.C[0])
	}
	rep.CoverPC = X.True
	for _, cs := range fc.C.Cases {
		v, _ := e.evalSpec(fn.Pkg, cs.Fn, args, st)
		if len(v.C) == 1 && v.C[0].S.Kind == smt.KBV && !v.C[0].IsConst() {
			rep.Cases = append(rep.Cases, CaseBits{v.C[0], cs.Mask})
		}
	}
	// old-expressions
	olds := map[string]Val{}
	for _, cl := range fc.C.Ensures {
		for _, of := range cl.OldFn {
			v, st2 := e.evalSpec(fn.Pkg, of, args, st)
			st = st2
			olds[of] = v
		}
	}
	// old-expressions of loop invariants too: their snapshots must live in the running state
	e.preOlds = map[string]Val{}
	for _, lp := range fc.C.Loops {
		for _, cl := range lp.Invs {
			for _, of := range cl.OldFn {
				if _, ok := e.preOlds[of]; !ok {
					v, st2 := e.evalSpec(fn.Pkg, of, args, st)
					st = st2
					e.preOlds[of] = v
				}
			}
		}
	}
	// frame
	e.frameLocs = e.evalModifies(fc, args, st)
	e.frameOn = true
	res, out, rpc := e.runFunc(fn, args, nil, st, fc)
	rep.ExitPC = rpc
	e.frameOn = false
	if !rpc.IsFalse() {
		e.pc = rpc
		rs := flatResults(res, fn.Signature.Results().Len())
		for _, cl := range fc.C.Ensures {
			as := append(append([]Val{}, args...), rs...)
			for _, of := range cl.OldFn {
				as = append(as, olds[of])
			}
			v, _ := e.evalSpec(fn.Pkg, cl.Func, as, out)
			e.obligeAt("ensures", fmt.Sprintf("%d:%s", cl.Idx, trunc(cl.Text, 70)), v.C[0], fn.Pos())
			// later clauses may rely on earlier ones (each is proved, in order)
			na := len(e.Assumptions)
			e.assume(v.C[0])
			if len(e.Assumptions) > na {
				e.GoalAssume[na] = true
			}
		}
	}
	rep.Obls = e.Obls
	rep.Assumptions = e.Assumptions
	rep.GoalAssume = e.GoalAssume
	for k := range e.Inlined {
		rep.Inlined = append(rep.Inlined, k)
	}
	for k := range e.UsedStd {
		rep.UsedStd = append(rep.UsedStd, k)
	}
	sort.Strings(rep.Inlined)
	sort.Strings(rep.UsedStd)
	return rep
}

// obligeAt is oblige with an explicit stable name part (clause index instead of a running ordinal).
func (e *Engine) obligeAt(kind, detail string, goal *smt.Term, pos token.Pos) {
	name := e.curName + "#" + kind + ":" + detail
	ob := &Obligation{Name: name, Kind: kind, Func: e.curName, Detail: detail, NAssume: len(e.Assumptions), PC: e.pc, Goal: goal, Props: e.curProps}
	if pos.IsValid() {
		p := e.Prog.Fset.Position(pos)
		ob.Pos = fmt.Sprintf("%s:%d", p.Filename, p.Line)
	}
	if goal.IsTrue() {
		ob.Verdict = "trivial"
	}
	e.Obls = append(e.Obls, ob)
}

// assumeParamShape: pointers to arrays passed by callers point at whole arrays.
func (e *Engine) assumeParamShape(v Val) {
	if _, ok := v.T.Underlying().(*types.Pointer); ok && v.Cell == nil {
		e.assume(e.X.Eq(v.C[1], e.X.Const(0, 64)))
		v.C[1] = e.X.Const(0, 64)
	}
}

// observeParam registers the SMT terms that describe an input, for counterexample replay.
func (e *Engine) observeParam(name string, v Val, st *State) ParamInfo {
	X := e.X
	pi := ParamInfo{Name: name, Type: shortType(v.T), Kind: "other"}
	add := func(n string, t *smt.Term) { e.Observe = append(e.Observe, Observable{n, t}) }
	switch u := v.T.Underlying().(type) {
	case *types.Basic:
		switch {
		case u.Info()&types.IsInteger != 0:
			pi.Kind = "int"
			add(name, v.C[0])
		case u.Info()&types.IsBoolean != 0:
			pi.Kind = "bool"
			add(name, v.C[0])
		}
	case *types.Pointer:
		if _, ok := u.Elem().Underlying().(*types.Struct); ok {
			pi.Kind = "struct"
			add(name+".ref", v.ref())
			e.observeStruct(name, v, st, 0)
		}
		if at, ok := u.Elem().Underlying().(*types.Array); ok && typeKey(at.Elem()) == "uint8" && at.Len() <= 256 {
			pi.Kind = "bytearray"
			pi.Len = int(at.Len())
			add(name+".ref", v.ref())
			h := e.heap(st, "arr:uint8/", smt.BV(8))
			arr := X.Select(h, v.ref())
			for k := 0; k < pi.Len; k++ {
				add(fmt.Sprintf("%s[%d]", name, k), X.Select(arr, X.Const(uint64(k), 64)))
			}
		}
	case *types.Interface:
		pi.Kind = "struct"
		add(name+".tag", v.C[0])
		add(name+".ref", v.C[1])
		for _, t := range e.concreteTypes() {
			if pt, isPtr := t.(*types.Pointer); isPtr && types.Implements(t, u) {
				if _, isStruct := pt.Elem().Underlying().(*types.Struct); isStruct {
					e.observeStruct(name+"("+shortType(t)+")", e.fromInterface(v, t), st, 0)
				}
			}
		}
	case *types.Slice:
		if typeKey(u.Elem()) == "uint8" {
			pi.Kind = "byteslice"
			pi.Len = 64
			add(name+".ref", v.ref())
			add(name+".len", v.ln())
			add(name+".cap", v.cp())
			h := e.heap(st, "arr:uint8/", smt.BV(8))
			arr := X.Select(h, v.ref())
			for k := 0; k < pi.Len; k++ {
				add(fmt.Sprintf("%s[%d]", name, k), X.Select(arr, X.BVAdd(v.off(), X.Const(uint64(k), 64))))
			}
		}
	}
	return pi
}

// ---- pieces not needed by the first clients; they bail so the function is reported out of reach.

// appendBuiltin: Go's append. If the result fits the capacity the backing array is extended in
// place (visible through every slice that shares it), otherwise a fresh array is allocated.
func (e *Engine) appendBuiltin(f *frame, x *ssa.Call, args []Val) Val {
	return e.appendCore(f, args[0], args[1], x.Pos())
}

func (e *Engine) appendCore(f *frame, s, el Val, pos token.Pos) Val {
	X := e.X
	st, ok := s.T.Underlying().(*types.Slice)
	if !ok {
		bail("append to %s", s.T)
	}
	elem := st.Elem()
	elLen, elOff, elRef := X.Const(0, 64), X.Const(0, 64), X.Const(0, 32)
	isStr := isString(el.T)
	if len(el.C) >= 3 {
		elRef, elOff, elLen = el.C[0], el.C[1], el.C[2]
	}
	newLen := X.BVAdd(s.ln(), elLen)
	fits := X.Ule(newLen, s.cp())
	if elLen.IsConst() && elLen.V == 0 {
		return s
	}
	// under path splitting "fits in the capacity" is explored one side at a time
	if want, ok := e.splitOn(f, fits); ok {
		e.assume(X.Eq(fits, X.BoolConst(want)))
		if want {
			fits = X.True
		} else {
			fits = X.False
		}
	}
	fresh := e.newRef(f.st)
	newCap := X.Fresh("appcap", IntSort)
	e.assume(X.And(X.Ule(newLen, newCap), X.Ule(newCap, X.Const(1<<41, 64))))
	if e.frameOn && e.specDepth == 0 && !s.ref().IsConst() && !fits.IsFalse() {
		l := frameLoc{kind: "range", ref: s.ref(), keyPfx: "arr:" + typeKey(elem) + "/", lo: X.BVAdd(s.off(), s.ln()), hi: X.BVAdd(s.off(), newLen), text: "append"}
		e.oblige("frame", "append in place", X.Or(X.Not(fits), e.locAllowed(l)), pos)
	}
	for _, c := range comps(elem) {
		key := "arr:" + typeKey(elem) + "/" + c.Suffix
		ekey := key
		if isStr {
			ekey = "arr:uint8/"
		}
		h := e.heap(f.st, key, c.Sort)
		eh := e.heap(f.st, ekey, c.Sort)
		sArr := X.Select(h, s.ref())
		eArr := X.Select(eh, elRef)
		j := X.BVar("aj", IntSort)
		// fresh array: old elements then the appended ones
		fr := X.Lambda(j, X.Ite(X.Ult(j, s.ln()), X.Select(sArr, X.BVAdd(s.off(), j)), X.Select(eArr, X.BVAdd(elOff, X.BVSub(j, s.ln())))))
		// in place: the appended elements after the current length
		j2 := X.BVar("aj", IntSort)
		rel := X.BVSub(j2, s.off()) // position relative to the slice start: index sums cancel
		ip := X.Lambda(j2, X.Ite(X.And(X.Ule(s.ln(), rel), X.Ult(rel, newLen)), X.Select(eArr, X.BVAdd(elOff, X.BVSub(rel, s.ln()))), X.Select(sArr, j2)))
		h = X.Store(h, s.ref(), X.Ite(fits, ip, sArr))
		h = X.Store(h, fresh, fr)
		e.setHeap(f.st, key, h)
	}
	return Val{T: s.T, C: []*smt.Term{X.Ite(fits, s.ref(), fresh), X.Ite(fits, s.off(), X.Const(0, 64)), newLen, X.Ite(fits, s.cp(), newCap)}}
}

func (e *Engine) lookup(f *frame, x *ssa.Lookup) Val {
	X := e.X
	base := e.operand(f, x.X)
	if isString(base.T) {
		idx := e.toInt(e.operand(f, x.Index))
		e.oblige("bounds", "string index", X.Ult(idx, base.C[2]), x.Pos())
		h := e.heap(f.st, "arr:uint8/", smt.BV(8))
		return e.intVal(x.Type(), X.Select(X.Select(h, base.C[0]), X.BVAdd(base.C[1], idx)))
	}
	return e.mapLookup(f, x, base)
}

// markOld records that the references of an input value predate every allocation of the call.
func (e *Engine) markOld(v Val) {
	if v.Tup != nil {
		for _, t := range v.Tup {
			e.markOld(t)
		}
		return
	}
	for i, c := range comps(v.T) {
		if c.Sort == RefSort && (strings.HasSuffix(c.Suffix, ".r") || strings.HasSuffix(c.Suffix, ".p")) {
			e.X.OldRef[v.C[i].ID()] = true
		}
	}
}

// applyInit gives package-level variables the values computed by symbolically executing the
// package initialisers (objects they allocate get constant references below every run-time
// allocation). If an initialiser leaves the supported subset the variables stay unconstrained
// (error variables: distinct non-nil constants).
func (e *Engine) applyInit(st *State, fn *ssa.Function) {
	pkg := fn.Pkg
	if pkg == nil && fn.Parent() != nil {
		pkg = fn.Parent().Pkg
	}
	if pkg == nil {
		return
	}
	is, ok := e.initCache[pkg]
	if !ok {
		is = e.runInit(pkg)
		e.initCache[pkg] = is
	}
	if is == nil {
		return
	}
	// only what the function (and the functions it can reach) mentions is brought in: the values
	// of those package-level variables and the objects reachable from them
	seen := map[string]bool{}
	for _, g := range e.referencedGlobals(fn) {
		gp := e.globalPtr(g)
		if gp.Cell != nil {
			v, ok := is.Cells[gp.Cell]
			if !ok {
				continue
			}
			st.Cells[gp.Cell] = v
			e.copyReachable(is, st, v, seen, 0)
			continue
		}
		e.copyObject(is, st, gp, seen, 0)
	}
}

// copyObject copies the object gp points to (and what it references) from the init state.
func (e *Engine) copyObject(is, st *State, ptr Val, seen map[string]bool, depth int) {
	if depth > 6 || ptr.Cell != nil || len(ptr.C) == 0 || !ptr.C[0].IsConst() || ptr.C[0].V == 0 {
		return
	}
	t := pointee(ptr.T)
	for _, sl := range e.slotsFor(ptr, t) {
		k := fmt.Sprintf("%s@%d", sl.key, ptr.C[0].V)
		if seen[k] {
			continue
		}
		seen[k] = true
		src := e.heap(is, sl.key, sl.leaf)
		dst := e.heap(st, sl.key, sl.leaf)
		st.Heaps[sl.key] = e.X.Store(dst, ptr.C[0], e.X.Select(src, ptr.C[0]))
	}
	switch u := t.Underlying().(type) {
	case *types.Struct:
		v := e.load(is, ptr)
		e.copyReachable(is, st, v, seen, depth+1)
	case *types.Array:
		if u.Len() <= 1024 {
			if _, basic := u.Elem().Underlying().(*types.Basic); !basic {
				for i := int64(0); i < u.Len(); i++ {
					ep := Val{T: types.NewPointer(u.Elem()), C: []*smt.Term{ptr.C[0], e.X.Const(uint64(i), 64)}, Root: RootArr, RootT: typeKey(u.Elem())}
					e.copyReachable(is, st, e.load(is, ep), seen, depth+1)
				}
			}
		}
	}
}

// copyReachable follows the references inside a value.
func (e *Engine) copyReachable(is, st *State, v Val, seen map[string]bool, depth int) {
	if depth > 6 || v.Tup != nil {
		return
	}
	switch u := v.T.Underlying().(type) {
	case *types.Pointer:
		if v.Cell == nil && len(v.C) == 2 {
			e.copyObject(is, st, v, seen, depth+1)
		}
	case *types.Slice:
		if len(v.C) == 4 && v.C[0].IsConst() && v.C[0].V != 0 && v.C[2].IsConst() && v.C[2].V <= 4096 {
			for _, c := range comps(u.Elem()) {
				key := "arr:" + typeKey(u.Elem()) + "/" + c.Suffix
				k := fmt.Sprintf("%s@%d", key, v.C[0].V)
				if seen[k] {
					continue
				}
				seen[k] = true
				src := e.heap(is, key, c.Sort)
				dst := e.heap(st, key, c.Sort)
				st.Heaps[key] = e.X.Store(dst, v.C[0], e.X.Select(src, v.C[0]))
			}
			if _, basic := u.Elem().Underlying().(*types.Basic); !basic {
				for i := uint64(0); i < v.C[2].V; i++ {
					ep := Val{T: types.NewPointer(u.Elem()), C: []*smt.Term{v.C[0], e.X.BVAdd(v.C[1], e.X.Const(i, 64))}, Root: RootArr, RootT: typeKey(u.Elem())}
					e.copyReachable(is, st, e.load(is, ep), seen, depth+1)
				}
			}
		}
	case *types.Struct:
		lo := 0
		for i := 0; i < u.NumFields(); i++ {
			n := len(comps(u.Field(i).Type()))
			fv := Val{T: u.Field(i).Type(), C: v.C[lo : lo+n]}
			e.setPtrMeta(&fv)
			e.copyReachable(is, st, fv, seen, depth+1)
			lo += n
		}
	case *types.Interface:
		// payloads of the library's pointer types
		if len(v.C) == 2 && v.C[0].IsConst() {
			if t, ok := e.tagTypes[int(v.C[0].V)]; ok {
				if _, isPtr := t.Underlying().(*types.Pointer); isPtr {
					e.copyObject(is, st, e.fromInterface(v, t), seen, depth+1)
				}
			}
		}
	case *types.Map:
		e.copyMap(is, st, v, seen, depth)
	}
}

// referencedGlobals: package-level variables mentioned by fn or by functions reachable from it.
func (e *Engine) referencedGlobals(fn *ssa.Function) []*ssa.Global {
	if gs, ok := e.refGlobCache[fn]; ok {
		return gs
	}
	seenF := map[*ssa.Function]bool{}
	seenG := map[*ssa.Global]bool{}
	var out []*ssa.Global
	var walk func(f *ssa.Function, depth int)
	walk = func(f *ssa.Function, depth int) {
		if f == nil || seenF[f] || depth > 12 {
			return
		}
		seenF[f] = true
		if !e.inRepo(f) && !e.isSpecFunc(f) {
			return
		}
		for _, b := range f.Blocks {
			for _, ins := range b.Instrs {
				var ops []*ssa.Value
				for _, op := range ins.Operands(ops) {
					if op == nil || *op == nil {
						continue
					}
					switch x := (*op).(type) {
					case *ssa.Global:
						if !seenG[x] {
							seenG[x] = true
							out = append(out, x)
						}
					case *ssa.Function:
						walk(x, depth+1)
					case *ssa.MakeClosure:
						if cf, ok := x.Fn.(*ssa.Function); ok {
							walk(cf, depth+1)
						}
					}
				}
				if c, ok := ins.(ssa.CallInstruction); ok {
					if callee := c.Common().StaticCallee(); callee != nil {
						walk(callee, depth+1)
					} else if c.Common().IsInvoke() {
						// interface calls: every implementation in the repository
						for _, t := range e.concreteTypes() {
							ms := e.Prog.MethodSets.MethodSet(t)
							if sel := ms.Lookup(c.Common().Method.Pkg(), c.Common().Method.Name()); sel != nil {
								walk(e.Prog.MethodValue(sel), depth+1)
							}
						}
					}
				}
			}
		}
		// contract clause functions of this function mention globals too (gots.ErrX in ensures)
		if fc, ok := e.Contracts[f]; ok {
			for _, cl := range fc.C.Requires {
				walk(f.Pkg.Func(cl.Func), depth+1)
			}
			for _, cl := range fc.C.Ensures {
				walk(f.Pkg.Func(cl.Func), depth+1)
			}
		}
	}
	walk(fn, 0)
	e.refGlobCache[fn] = out
	return out
}

func (e *Engine) runInit(pkg *ssa.Package) (out *State) {
	initFn := pkg.Func("init")
	if initFn == nil || len(initFn.Blocks) == 0 {
		return nil
	}
	defer func() {
		if r := recover(); r != nil {
			if u, ok := r.(unsupported); ok {
				e.Notes = append(e.Notes, "package initialiser of "+pkg.Pkg.Path()+" not evaluated: "+u.Error())
				if os.Getenv("GOVC_DEBUG") != "" {
					fmt.Fprintln(os.Stderr, e.Notes[len(e.Notes)-1])
				}
				out = nil
				return
			}
			panic(r)
		}
	}()
	st := &State{Heaps: map[string]*smt.Term{}, Cells: map[*Cell]Val{}, Alloc: e.X.Const(0x1000, 32)}
	savedPC, savedSpec, savedFrame := e.pc, e.specDepth, e.frameOn
	savedAss := len(e.Assumptions)
	e.pc = e.X.True
	e.specDepth++
	e.inInit = true
	e.frameOn = false
	defer func() {
		e.pc, e.specDepth, e.frameOn, e.inInit = savedPC, savedSpec, savedFrame, false
		// facts recorded while evaluating initialisers are definitional; keep them
		_ = savedAss
	}()
	_, st2, _ := e.runFunc(initFn, nil, nil, st, nil)
	return st2
}

// observeStruct registers the scalar fields of the struct a pointer refers to (and, through
// interface/pointer fields of the library's own types, one more level) for counterexample display.
func (e *Engine) observeStruct(name string, p Val, st *State, depth int) {
	if depth > 2 || p.Cell != nil {
		return
	}
	stT, ok := pointee(p.T).Underlying().(*types.Struct)
	if !ok {
		return
	}
	for i := 0; i < stT.NumFields(); i++ {
		f := stT.Field(i)
		fp := p
		fp.T = types.NewPointer(f.Type())
		fp.Path = p.Path + "." + f.Name()
		switch u := f.Type().Underlying().(type) {
		case *types.Basic:
			if u.Info()&(types.IsInteger|types.IsBoolean) != 0 {
				v := e.load(st, fp)
				e.Observe = append(e.Observe, Observable{name + "." + f.Name(), v.C[0]})
			}
		case *types.Interface:
			v := e.load(st, fp)
			e.Observe = append(e.Observe, Observable{name + "." + f.Name() + ".tag", v.C[0]})
			e.Observe = append(e.Observe, Observable{name + "." + f.Name() + ".ref", v.C[1]})
			for _, t := range e.concreteTypes() {
				if pt, isPtr := t.(*types.Pointer); isPtr && types.Implements(t, u) {
					if _, isStruct := pt.Elem().Underlying().(*types.Struct); isStruct {
						q := e.fromInterface(v, t)
						e.observeStruct(name+"."+f.Name()+"("+shortType(t)+")", q, st, depth+1)
					}
				}
			}
		case *types.Pointer:
			if _, isStruct := u.Elem().Underlying().(*types.Struct); isStruct {
				v := e.load(st, fp)
				e.Observe = append(e.Observe, Observable{name + "." + f.Name() + ".ref", v.C[0]})
				e.observeStruct(name+"."+f.Name(), v, st, depth+1)
			}
		}
	}
}
