package vc

import (
	"fmt"
	"go/types"
	"strings"

	"govc/smt"

	"golang.org/x/tools/go/ssa"
)

// Maps are heap objects with three heap families per map type:
//   mapP:<K>:<V>/        ref -> (key -> present?)
//   mapV:<K>:<V>/<comp>  ref -> (key -> value component)
//   mapL:<K>:<V>/        ref -> number of entries
// Keys are integer-like (bit-vectors of the key type's width).

type mapInfo struct {
	kt, vt  types.Type
	ksort   *smt.Sort
	id      string
	pKey    string
	lKey    string
	vKeys   []string
	vLeaves []*smt.Sort
}

func (e *Engine) mapInfoOf(t types.Type) *mapInfo {
	mt, ok := t.Underlying().(*types.Map)
	if !ok {
		bail("not a map: %s", t)
	}
	if !isInt(mt.Key()) {
		bail("map with non-integer key type %s", mt.Key())
	}
	id := typeKey(mt.Key()) + ":" + typeKey(mt.Elem())
	mi := &mapInfo{kt: mt.Key(), vt: mt.Elem(), ksort: smt.BV(widthOf(mt.Key())), id: id}
	mi.pKey = "mapP:" + id + "/"
	mi.lKey = "mapL:" + id + "/"
	e.heapIdx[mi.pKey] = mi.ksort
	e.heapSorts[mi.pKey] = smt.Bool
	e.heapSorts[mi.lKey] = IntSort
	for _, c := range comps(mt.Elem()) {
		k := "mapV:" + id + "/" + c.Suffix
		mi.vKeys = append(mi.vKeys, k)
		mi.vLeaves = append(mi.vLeaves, c.Sort)
		e.heapIdx[k] = mi.ksort
		e.heapSorts[k] = c.Sort
	}
	return mi
}

func (e *Engine) makeMap(f *frame, x *ssa.MakeMap) Val {
	X := e.X
	mi := e.mapInfoOf(x.Type())
	ref := e.newRef(f.st)
	hp := e.heap(f.st, mi.pKey, smt.Bool)
	f.st.Heaps[mi.pKey] = X.Store(hp, ref, X.ConstArray(smt.Array(mi.ksort, smt.Bool), X.False))
	hl := e.heap(f.st, mi.lKey, IntSort)
	f.st.Heaps[mi.lKey] = X.Store(hl, ref, X.Const(0, 64))
	return Val{T: x.Type(), C: []*smt.Term{ref}}
}

func (e *Engine) mapKey(mi *mapInfo, k Val) *smt.Term { return k.C[0] }

func (e *Engine) mapUpdate(f *frame, x *ssa.MapUpdate) {
	X := e.X
	m := e.operand(f, x.Map)
	mi := e.mapInfoOf(m.T)
	k := e.mapKey(mi, e.operand(f, x.Key))
	v := e.operand(f, x.Value)
	ref := m.C[0]
	e.oblige("nil", "assignment to entry in nil map", X.Not(X.Eq(ref, X.Const(0, 32))), x.Pos())
	if e.frameOn && e.specDepth == 0 && !ref.IsConst() {
		e.oblige("frame", "map update", e.isFresh(e.alloc0, ref), x.Pos())
	}
	if v.Clo != nil {
		v = e.opaqueFunc(v)
	}
	hp := e.heap(f.st, mi.pKey, smt.Bool)
	P := X.Select(hp, ref)
	was := X.Select(P, k)
	f.st.Heaps[mi.pKey] = X.Store(hp, ref, X.Store(P, k, X.True))
	hl := e.heap(f.st, mi.lKey, IntSort)
	f.st.Heaps[mi.lKey] = X.Store(hl, ref, X.BVAdd(X.Select(hl, ref), X.Ite(was, X.Const(0, 64), X.Const(1, 64))))
	for i, vk := range mi.vKeys {
		hv := e.heap(f.st, vk, mi.vLeaves[i])
		f.st.Heaps[vk] = X.Store(hv, ref, X.Store(X.Select(hv, ref), k, v.C[i]))
	}
}

func (e *Engine) mapLookup(f *frame, x *ssa.Lookup, m Val) Val {
	X := e.X
	mi := e.mapInfoOf(m.T)
	k := e.mapKey(mi, e.operand(f, x.Index))
	ref := m.C[0]
	hp := e.heap(f.st, mi.pKey, smt.Bool)
	ok := X.And(X.Not(X.Eq(ref, X.Const(0, 32))), X.Select(X.Select(hp, ref), k))
	val := Val{T: mi.vt}
	zero := e.zeroVal(mi.vt)
	for i, vk := range mi.vKeys {
		hv := e.heap(f.st, vk, mi.vLeaves[i])
		val.C = append(val.C, X.Ite(ok, X.Select(X.Select(hv, ref), k), zero.C[i]))
	}
	e.setPtrMeta(&val)
	if x.CommaOk {
		return Val{T: x.Type(), Tup: []Val{val, e.boolVal(ok)}}
	}
	return val
}

func (e *Engine) mapLen(f *frame, m Val) Val {
	X := e.X
	mi := e.mapInfoOf(m.T)
	hl := e.heap(f.st, mi.lKey, IntSort)
	return e.intVal(types.Typ[types.Int], X.Ite(X.Eq(m.C[0], X.Const(0, 32)), X.Const(0, 64), X.Select(hl, m.C[0])))
}

func (e *Engine) mapDelete(f *frame, m, kv Val) {
	X := e.X
	mi := e.mapInfoOf(m.T)
	k := e.mapKey(mi, kv)
	ref := m.C[0]
	hp := e.heap(f.st, mi.pKey, smt.Bool)
	P := X.Select(hp, ref)
	was := X.And(X.Not(X.Eq(ref, X.Const(0, 32))), X.Select(P, k))
	f.st.Heaps[mi.pKey] = X.Store(hp, ref, X.Store(P, k, X.False))
	hl := e.heap(f.st, mi.lKey, IntSort)
	f.st.Heaps[mi.lKey] = X.Store(hl, ref, X.BVSub(X.Select(hl, ref), X.Ite(was, X.Const(1, 64), X.Const(0, 64))))
}

// mapIter is the executor-side value of a range-over-map iterator.
type mapIter struct {
	m    Val
	mi   *mapInfo
	cell *Cell // ghost: the set of keys already produced (Array K Bool), loop-carried
}

func (e *Engine) rangeStart(f *frame, x *ssa.Range) Val {
	m := e.operand(f, x.X)
	if _, ok := m.T.Underlying().(*types.Map); !ok {
		bail("range over %s", m.T)
	}
	it := &mapIter{m: m, mi: e.mapInfoOf(m.T)}
	it.cell = &Cell{Name: "visited", T: nil}
	f.st.Cells[it.cell] = Val{C: []*smt.Term{e.X.ConstArray(smt.Array(it.mi.ksort, smt.Bool), e.X.False)}}
	if e.iters == nil {
		e.iters = map[ssa.Value]*mapIter{}
	}
	e.iters[x] = it
	e.lastIter = it
	return Val{T: x.Type(), C: []*smt.Term{}}
}

// rangeNext models the first step of a map iteration (loops that keep iterating need the ghost
// "visited" set and are not supported): some present key is produced iff the map is not empty.
func (e *Engine) rangeNext(f *frame, x *ssa.Next) Val {
	X := e.X
	it := e.iters[x.Iter]
	if it == nil {
		bail("range next on unknown iterator")
	}
	mi := it.mi
	ref := it.m.C[0]
	hp := e.heap(f.st, mi.pKey, smt.Bool)
	P := X.Select(hp, ref)
	vis := f.st.Cells[it.cell].C[0]
	k := X.Fresh("mapkey", mi.ksort)
	ok := X.Fresh("mapnext", smt.Bool)
	j := X.BVar("mk", mi.ksort)
	nonNil := X.Not(X.Eq(ref, X.Const(0, 32)))
	// a next key exists iff some present key has not been produced yet; it is such a key
	e.assume(X.Implies(ok, X.And(nonNil, X.Select(P, k), X.Not(X.Select(vis, k)))))
	e.assume(X.Implies(X.Not(ok), X.Or(X.Not(nonNil), X.Forall([]*smt.Term{j}, X.Implies(X.Select(P, j), X.Select(vis, j))))))
	f.st.Cells[it.cell] = Val{C: []*smt.Term{X.Ite(ok, X.Store(vis, k, X.True), vis)}}
	kv := e.intVal(mi.kt, k)
	val := Val{T: mi.vt}
	for i, vk := range mi.vKeys {
		hv := e.heap(f.st, vk, mi.vLeaves[i])
		val.C = append(val.C, X.Select(X.Select(hv, ref), k))
	}
	e.setPtrMeta(&val)
	return Val{T: x.Type(), Tup: []Val{e.boolVal(ok), kv, val}}
}

func (e *Engine) copyMap(is, st *State, v Val, seen map[string]bool, depth int) {
	if len(v.C) != 1 || !v.C[0].IsConst() || v.C[0].V == 0 {
		return
	}
	mi := e.mapInfoOf(v.T)
	keys := append([]string{mi.pKey, mi.lKey}, mi.vKeys...)
	for _, key := range keys {
		k := fmt.Sprintf("%s@%d", key, v.C[0].V)
		if seen[k] {
			continue
		}
		seen[k] = true
		leaf := e.heapSorts[key]
		src := e.heap(is, key, leaf)
		dst := e.heap(st, key, leaf)
		st.Heaps[key] = e.X.Store(dst, v.C[0], e.X.Select(src, v.C[0]))
	}
	// nested maps / pointers stored as values with constant keys: follow the store chain
	if _, nested := mi.vt.Underlying().(*types.Map); nested {
		arr := e.X.Select(e.heap(is, mi.vKeys[0], mi.vLeaves[0]), v.C[0])
		for arr.Op == "store" {
			if arr.Args[2].IsConst() {
				e.copyMap(is, st, Val{T: mi.vt, C: []*smt.Term{arr.Args[2]}}, seen, depth+1)
			}
			arr = arr.Args[0]
		}
	}
}

var _ = strings.HasPrefix
