package vc

import (
	"os"
	"fmt"
	"go/token"
	"go/types"
	"sort"
	"strings"

	"govc/smt"

	"golang.org/x/tools/go/ssa"
)

// concreteTypes lists the named types of the repository (and pointers to them): the closed
// world over which interface method calls are dispatched.
func (e *Engine) concreteTypes() []types.Type {
	if e.concrete != nil {
		return e.concrete
	}
	var out []types.Type
	for _, pkg := range e.Prog.AllPackages() {
		if pkg.Pkg == nil || !strings.HasPrefix(pkg.Pkg.Path(), e.RepoPrefix) {
			continue
		}
		var names []string
		for n := range pkg.Members {
			names = append(names, n)
		}
		sort.Strings(names)
		for _, n := range names {
			if t, ok := pkg.Members[n].(*ssa.Type); ok {
				nt := t.Type()
				if _, isIface := nt.Underlying().(*types.Interface); isIface {
					continue
				}
				out = append(out, nt, types.NewPointer(nt))
			}
		}
	}
	e.concrete = out
	return out
}

// invoke: interface method call, dispatched over the repository's implementations of the
// interface (closed world, stated assumption); a nil receiver is a panic obligation.
func (e *Engine) invoke(f *frame, x *ssa.Call, recv Val, m *types.Func, args []Val) Val {
	X := e.X
	iface, ok := recv.T.Underlying().(*types.Interface)
	if !ok {
		bail("invoke on non-interface %s", recv.T)
	}
	if v, ok := e.abstractInvoke(f, x, recv, m, args); ok {
		return v
	}
	e.oblige("nil", "call on nil interface", X.Not(X.Eq(recv.C[0], X.Const(0, 32))), x.Pos())
	type cand struct {
		t  types.Type
		fn *ssa.Function
	}
	var cands []cand
	for _, t := range e.concreteTypes() {
		if !types.Implements(t, iface) {
			continue
		}
		ms := e.Prog.MethodSets.MethodSet(t)
		sel := ms.Lookup(m.Pkg(), m.Name())
		if sel == nil {
			continue
		}
		fn := e.Prog.MethodValue(sel)
		if fn == nil {
			continue
		}
		// prefer pointer receivers' declared methods; skip value types whose pointer type also implements
		if _, isPtr := t.(*types.Pointer); !isPtr {
			if types.Implements(types.NewPointer(t), iface) {
				pms := e.Prog.MethodSets.MethodSet(types.NewPointer(t))
				if psel := pms.Lookup(m.Pkg(), m.Name()); psel != nil {
					if _, recvIsPtr := psel.Obj().(*types.Func).Type().(*types.Signature).Recv().Type().(*types.Pointer); recvIsPtr {
						continue
					}
				}
			}
		}
		cands = append(cands, cand{t, fn})
	}
	if len(cands) == 0 {
		bail("no implementation of %s.%s in the repository", recv.T, m.Name())
	}
	// closed world: the dynamic type is one of the candidates
	var alts []*smt.Term
	for _, c := range cands {
		alts = append(alts, X.Eq(recv.C[0], X.Const(uint64(e.tagOf(c.t)), 32)))
	}
	e.assume(X.Or(alts...))
	if k, ok := e.knownConst(recv.C[0]); ok {
		// the dynamic type is pinned by an assumption in force (a precondition such as
		// "the writer is the model"): only that implementation is explored
		for i, c := range cands {
			if uint64(e.tagOf(c.t)) != k {
				alts[i] = X.False
			}
		}
	}
	if os.Getenv("GOVC_DEBUG") != "" {
		if _, ok := e.knownConst(recv.C[0]); !ok {
			txt := e.X.Script(append([]*smt.Term{X.Eq(recv.C[0], X.Const(77, 32))}, e.Assumptions...), nil, "ALL", false).Text
			os.WriteFile("/tmp/invoke_dbg.smt2", []byte(txt), 0o644)
		}
	}
	rt := resultType(x.Call.Signature())
	var res Val
	have := false
	savedPC := e.pc
	base := f.st
	var conds []*smt.Term
	var sts []*State
	for i := len(cands) - 1; i >= 0; i-- {
		c := cands[i]
		cond := alts[i]
		if cond.IsFalse() {
			continue
		}
		e.pc = X.And(savedPC, cond)
		f.st = base.clone()
		rv := e.fromInterface(recv, c.t)
		fn := c.fn
		// an implementation outside the supported subset is acceptable only if it cannot be the
		// dynamic type here: that becomes an obligation instead of making the caller unverifiable
		var r Val
		okCall := func() (ok bool) {
			nObl, nAss := len(e.Obls), len(e.Assumptions)
			defer func() {
				if rec := recover(); rec != nil {
					if _, isU := rec.(unsupported); isU {
						e.Obls, e.Assumptions = e.Obls[:nObl], e.Assumptions[:nAss]
						ok = false
						return
					}
					panic(rec)
				}
			}()
			r = e.callFunction(f, fn, append([]Val{rv}, args...), nil, nil, x.Pos())
			return true
		}()
		if !okCall {
			e.pc = savedPC
			e.oblige("assert", "dynamic type is not "+shortType(c.t)+" (implementation outside the verified subset)", X.Not(cond), x.Pos())
			continue
		}
		if os.Getenv("GOVC_DEBUG") != "" {
			fmt.Fprintf(os.Stderr, "invoke %s.%s: candidate %s -> tup=%d comps=%d\n", recv.T, m.Name(), c.t, len(r.Tup), len(r.C))
		}
		conds = append([]*smt.Term{cond}, conds...)
		sts = append([]*State{f.st}, sts...)
		if !have {
			res, have = r, true
		} else {
			res = e.iteVal(cond, r, res)
		}
	}
	e.pc = savedPC
	if len(sts) == 1 {
		f.st = sts[0]
	} else {
		f.st = e.mergeStates(conds, sts)
	}
	if !have {
		return e.freshVal("invoke", rt)
	}
	return res
}

// abstractInvoke models interfaces implemented outside the repository (error, io.Reader, ...).
func (e *Engine) abstractInvoke(f *frame, x *ssa.Call, recv Val, m *types.Func, args []Val) (Val, bool) {
	name := types.TypeString(recv.T, nil) + "." + m.Name()
	switch name {
	case "error.Error":
		e.oblige("nil", "call on nil interface", e.X.Not(e.X.Eq(recv.C[0], e.X.Const(0, 32))), x.Pos())
		return e.freshVal("errstr", types.Typ[types.String]), true
	}
	return Val{}, false
}

// stdModel: assumed contracts of standard-library functions that are not inlined from source.
func (e *Engine) stdModel(f *frame, fn *ssa.Function, args []Val, pos token.Pos) (Val, bool) {
	if fn.Pkg == nil {
		return Val{}, false
	}
	q := fn.Pkg.Pkg.Path() + "." + fn.Name()
	if fn.Signature.Recv() != nil {
		q = fn.String()
	}
	X := e.X
	switch q {
	case "errors.New", "fmt.Errorf":
		// a fresh, non-nil error value distinct from every package-level error variable
		e.UsedStd["assumed: "+q+" returns a fresh non-nil error"] = true
		ref := e.newRef(f.st)
		return Val{T: fn.Signature.Results().At(0).Type(), C: []*smt.Term{X.Const(uint64(e.tagNamed("*errors.errorString")), 32), X.ZeroExt(32, ref)}}, true
	case "(*bytes.Buffer).Write":
		// assumed model: the unread contents grow by exactly p (b.buf = append(b.buf, p...)); n = len(p), err = nil
		e.UsedStd["assumed: (*bytes.Buffer).Write appends exactly its argument to the buffer contents and returns (len(p), nil)"] = true
		b, p := args[0], args[1]
		e.nilCheck(b, pos, "bytes.Buffer")
		bt := pointee(b.T)
		st := bt.Underlying().(*types.Struct)
		var ft types.Type
		for i := 0; i < st.NumFields(); i++ {
			if st.Field(i).Name() == "buf" {
				ft = st.Field(i).Type()
			}
		}
		fp := Val{T: types.NewPointer(ft), C: b.C, Root: RootObj, RootT: typeKey(bt), Path: ".buf"}
		na0 := len(e.Assumptions)
		old := e.load(f.st, fp)
		if os.Getenv("GOVC_DEBUG") != "" {
			fmt.Fprintf(os.Stderr, "Buffer.Write model: depth=%d loaded %d comps, %d new assumptions\n", e.specDepth, len(old.C), len(e.Assumptions)-na0)
			for _, a := range e.Assumptions[na0:] {
				fmt.Fprintf(os.Stderr, "   %s\n", e.X.Script([]*smt.Term{a}, nil, "ALL", false).Text)
			}
		}
		nw := e.appendCore(f, old, p, pos)
		e.store(f.st, fp, nw)
		errT := fn.Signature.Results().At(1).Type()
		return Val{T: fn.Signature.Results(), Tup: []Val{e.intVal(types.Typ[types.Int], p.ln()), e.zeroVal(errT)}}, true
	case "io.ReadFull":
		// assumed model: io.ReadFull(r, buf) over a reader model that declares verifReadFull behaves
		// as that method says, whatever way the reader fragments its data across Read calls
		// (io.ReadAtLeast keeps calling Read until buf is full or Read fails)
		r, buf := args[0], args[1]
		known, haveKnown := e.knownConst(r.C[0])
		for _, t := range e.concreteTypes() {
			if haveKnown && uint64(e.tagOf(t)) != known {
				continue // a precondition pins the reader's dynamic type: use that model
			}
			ms := e.Prog.MethodSets.MethodSet(t)
			for i := 0; i < ms.Len(); i++ {
				if ms.At(i).Obj().Name() != "verifReadFull" {
					continue
				}
				mfn := e.Prog.MethodValue(ms.At(i))
				if mfn == nil {
					continue
				}
				if _, isPtr := t.(*types.Pointer); !isPtr {
					continue
				}
				e.UsedStd["assumed: io.ReadFull over "+shortType(t)+" behaves as its verifReadFull method (io.ReadAtLeast's loop over any fragmentation of the data)"] = true
				e.oblige("assert", "io.ReadFull: the reader is the model "+shortType(t), X.Eq(r.C[0], X.Const(uint64(e.tagOf(t)), 32)), pos)
				rv := e.fromInterface(r, t)
				return e.callFunction(f, mfn, []Val{rv, buf}, nil, nil, pos), true
			}
		}
		return Val{}, false
	case "time.Now":
		e.UsedStd["assumed: time.Now returns some time value and touches no library memory"] = true
		return e.freshVal("now", resultType(fn.Signature)), true
	case "fmt.Sprintf", "fmt.Sprint", "fmt.Sprintln":
		e.UsedStd["assumed: "+q+" returns some string and touches no library memory"] = true
		return e.freshVal("sprintf", types.Typ[types.String]), true
	case "fmt.Printf", "fmt.Println", "fmt.Print":
		e.UsedStd["assumed: "+q+" touches no library memory"] = true
		return e.freshVal("printf", resultType(fn.Signature)), true
	}
	return Val{}, false
}

var _ = fmt.Sprint

// knownConst: an unconditional assumption in force pins t to a constant. It recognises the shapes
// preconditions produce: t == k, conjunctions, and "x.(T) != nil" (not (ite(t == k, r, 0) == 0)).
func (e *Engine) knownConst(t *smt.Term) (uint64, bool) {
	var found *smt.Term
	// the conjuncts of the current path condition: an assumption "pc' ==> f" is in force when pc'
	// is made of them
	pcc := map[*smt.Term]bool{}
	var flat func(a *smt.Term)
	flat = func(a *smt.Term) {
		if a.Op == "and" {
			for _, x := range a.Args {
				flat(x)
			}
			return
		}
		pcc[a] = true
	}
	flat(e.pc)
	refuted := func(x *smt.Term) bool {
		if x.Op != "not" {
			return false
		}
		c := x.Args[0]
		if pcc[c] {
			return true
		}
		if c.Op == "and" {
			for _, y := range c.Args {
				if !pcc[y] {
					return false
				}
			}
			return true
		}
		return false
	}
	truths := map[*smt.Term]bool{}
	var pos, neg func(a *smt.Term, depth int)
	pos = func(a *smt.Term, depth int) {
		if found != nil || depth > 12 {
			return
		}
		truths[a] = true
		switch a.Op {
		case "or":
			var rest []*smt.Term
			for _, x := range a.Args {
				if !refuted(x) {
					rest = append(rest, x)
				}
			}
			if len(rest) == 1 {
				pos(rest[0], depth+1)
			}
		case "and":
			for _, x := range a.Args {
				pos(x, depth+1)
			}
		case "not":
			neg(a.Args[0], depth+1)
		case "=":
			if a.Args[0] == t && a.Args[1].IsConst() {
				found = a.Args[1]
			} else if a.Args[1] == t && a.Args[0].IsConst() {
				found = a.Args[0]
			}
		case "ite":
			// a boolean ite(c, x, false) holds only if c and x do
			if a.Args[2].IsFalse() {
				pos(a.Args[0], depth+1)
				pos(a.Args[1], depth+1)
			}
		}
	}
	neg = func(a *smt.Term, depth int) {
		if found != nil || depth > 12 {
			return
		}
		switch a.Op {
		case "or":
			for _, x := range a.Args {
				neg(x, depth+1)
			}
		case "and":
			// not (a and b) with a known: not b
			var rest []*smt.Term
			for _, x := range a.Args {
				if !truths[x] && !pcc[x] {
					rest = append(rest, x)
				}
			}
			if len(rest) == 1 {
				neg(rest[0], depth+1)
			}
		case "not":
			pos(a.Args[0], depth+1)
		case "=":
			// not (ite(c, x, k) == k)  implies c
			for i := 0; i < 2; i++ {
				it, k := a.Args[i], a.Args[1-i]
				if it.Op == "ite" && k.IsConst() && it.Args[2] == k {
					pos(it.Args[0], depth+1)
				}
			}
		}
	}
	for pass := 0; pass < 2; pass++ {
		for _, a := range e.Assumptions {
			pos(a, 0)
			if found != nil {
				return found.V, true
			}
		}
	}
	return 0, false
}
