// Package vc is the verification-condition generator: a symbolic executor over go/ssa
// that produces SMT obligations for functions under contract.
package vc

import (
	"fmt"
	"go/types"
	"strings"

	"govc/smt"

	"golang.org/x/tools/go/ssa"
)

var (
	RefSort = smt.BV(32)
	IntSort = smt.BV(64)
	TagSort = smt.BV(32)
)

// Comp is one scalar SMT component of a flattened Go type.
type Comp struct {
	Suffix string
	Sort   *smt.Sort
}

// Cell is an executor-side variable (a non-aggregate local whose address is taken, a global).
type Cell struct {
	Name string
	T    types.Type
	Glob *ssa.Global
}

// Closure is a function value with a statically known target.
type Closure struct {
	Fn       *ssa.Function
	Bindings []Val
}

// Root kinds of heap pointers.
const (
	RootNone = iota
	RootObj  // stand-alone object (struct or scalar) : heap obj:<T>/<suffix> : Ref -> leaf
	RootArr  // array / slice backing store           : heap arr:<E>/<suffix> : Ref -> (Int -> leaf)
)

// Val is a symbolic Go value: the type plus flattened SMT components, plus static metadata
// for things that have no SMT representation (cells, closures, interior-pointer paths).
type Val struct {
	T     types.Type
	C     []*smt.Term
	Cell  *Cell  // pointer to an executor cell
	Root  int    // for heap pointers
	RootT string // heap type key of the root object / element
	Path  string // component-suffix prefix selected so far inside the root element
	Clo   *Closure
	Tup   []Val // tuples
	Bound int   // static upper bound on len for slices derived from fixed arrays (0 = unknown)
	Elems []Val // executor-side contents of a small literal slice (function-valued options etc.)
}

func (v Val) IsTuple() bool { return v.Tup != nil }

// Sizes.
func intWidth(b *types.Basic) (int, bool) {
	switch b.Kind() {
	case types.Int8:
		return 8, true
	case types.Uint8:
		return 8, false
	case types.Int16:
		return 16, true
	case types.Uint16:
		return 16, false
	case types.Int32:
		return 32, true
	case types.Uint32:
		return 32, false
	case types.Int64, types.Int, types.UntypedInt, types.UntypedRune:
		return 64, true
	case types.Uint64, types.Uint, types.Uintptr:
		return 64, false
	}
	return 0, false
}

func isInt(t types.Type) bool {
	b, ok := t.Underlying().(*types.Basic)
	return ok && b.Info()&types.IsInteger != 0
}
func isSigned(t types.Type) bool {
	b, ok := t.Underlying().(*types.Basic)
	if !ok {
		return false
	}
	_, s := intWidth(b)
	return s
}
func widthOf(t types.Type) int {
	b, ok := t.Underlying().(*types.Basic)
	if !ok {
		return 0
	}
	w, _ := intWidth(b)
	return w
}
func isBool(t types.Type) bool {
	b, ok := t.Underlying().(*types.Basic)
	return ok && b.Info()&types.IsBoolean != 0
}
func isString(t types.Type) bool {
	b, ok := t.Underlying().(*types.Basic)
	return ok && b.Info()&types.IsString != 0
}

type unsupported struct{ msg string }

func (u unsupported) Error() string { return "unsupported: " + u.msg }

func bail(format string, a ...interface{}) {
	panic(unsupported{fmt.Sprintf(format, a...)})
}

// typeKey gives the heap key of a type: basic types by kind, named types by full name.
func typeKey(t types.Type) string {
	switch u := t.(type) {
	case *types.Named:
		if _, ok := u.Underlying().(*types.Struct); ok {
			return types.TypeString(u, nil)
		}
		if _, ok := u.Underlying().(*types.Interface); ok {
			return "iface"
		}
		return typeKey(u.Underlying())
	case *types.Alias:
		return typeKey(types.Unalias(u))
	case *types.Basic:
		switch u.Kind() {
		case types.Int, types.Int64:
			return "int64"
		case types.Uint, types.Uint64, types.Uintptr:
			return "uint64"
		case types.Uint8:
			return "uint8"
		}
		return u.Name()
	case *types.Pointer:
		return "ptr"
	case *types.Slice:
		return "slice"
	case *types.Interface:
		return "iface"
	case *types.Map:
		return "map"
	case *types.Signature:
		return "func"
	case *types.Array:
		return fmt.Sprintf("[%d]%s", u.Len(), typeKey(u.Elem()))
	case *types.Struct:
		return "struct{" + t.String() + "}"
	}
	return t.String()
}

// comps flattens a type into scalar components.
func comps(t types.Type) []Comp {
	switch u := t.Underlying().(type) {
	case *types.Basic:
		switch {
		case u.Info()&types.IsBoolean != 0:
			return []Comp{{"", smt.Bool}}
		case u.Info()&types.IsInteger != 0:
			w, _ := intWidth(u)
			return []Comp{{"", smt.BV(w)}}
		case u.Info()&types.IsString != 0:
			return []Comp{{".p", RefSort}, {".o", IntSort}, {".l", IntSort}}
		case u.Kind() == types.UnsafePointer:
			bail("unsafe.Pointer")
		case u.Kind() == types.UntypedNil:
			return []Comp{{".r", RefSort}, {".o", IntSort}}
		}
		bail("basic type %s", u)
	case *types.Pointer:
		return []Comp{{".r", RefSort}, {".o", IntSort}}
	case *types.Slice:
		return []Comp{{".p", RefSort}, {".o", IntSort}, {".l", IntSort}, {".c", IntSort}}
	case *types.Interface:
		return []Comp{{".t", TagSort}, {".v", IntSort}}
	case *types.Map:
		return []Comp{{".r", RefSort}}
	case *types.Signature:
		return []Comp{{".f", RefSort}}
	case *types.Struct:
		var cs []Comp
		for i := 0; i < u.NumFields(); i++ {
			f := u.Field(i)
			for _, c := range comps(f.Type()) {
				cs = append(cs, Comp{"." + f.Name() + c.Suffix, c.Sort})
			}
		}
		return cs
	case *types.Array:
		var cs []Comp
		for _, c := range comps(u.Elem()) {
			cs = append(cs, Comp{"[]" + c.Suffix, smt.Array(IntSort, c.Sort)})
		}
		return cs
	case *types.Tuple:
		bail("tuple flattened")
	}
	bail("type %s", t)
	return nil
}

// fieldRange gives the component index range [lo,hi) of field i in struct st, and its suffix prefix.
func fieldRange(st *types.Struct, i int) (int, int) {
	lo := 0
	for k := 0; k < i; k++ {
		lo += len(comps(st.Field(k).Type()))
	}
	return lo, lo + len(comps(st.Field(i).Type()))
}

func derefStruct(t types.Type) *types.Struct {
	if p, ok := t.Underlying().(*types.Pointer); ok {
		t = p.Elem()
	}
	st, _ := t.Underlying().(*types.Struct)
	return st
}

// ---- Engine-level helpers for building values

func (e *Engine) freshVal(name string, t types.Type) Val {
	if tup, ok := t.(*types.Tuple); ok {
		v := Val{T: t}
		if tup.Len() == 0 {
			v.Tup = []Val{}
		}
		for i := 0; i < tup.Len(); i++ {
			v.Tup = append(v.Tup, e.freshVal(fmt.Sprintf("%s.%d", name, i), tup.At(i).Type()))
		}
		return v
	}
	cs := comps(t)
	v := Val{T: t}
	for _, c := range cs {
		v.C = append(v.C, e.X.Fresh(name+c.Suffix, c.Sort))
	}
	e.setPtrMeta(&v)
	return v
}

// setPtrMeta fills the static root description of a pointer value from its type.
func (e *Engine) setPtrMeta(v *Val) {
	p, ok := v.T.Underlying().(*types.Pointer)
	if !ok {
		return
	}
	// pointers held in variables, fields and results point at whole objects (interior pointers
	// exist only as temporaries and are never stored), so the element offset is 0
	if len(v.C) == 2 && v.Path == "" && v.Cell == nil {
		v.C = []*smt.Term{v.C[0], e.X.Const(0, 64)}
	}
	switch el := p.Elem().Underlying().(type) {
	case *types.Array:
		v.Root, v.RootT = RootArr, typeKey(el.Elem())
	default:
		v.Root, v.RootT = RootObj, typeKey(p.Elem())
	}
}

func (e *Engine) zeroVal(t types.Type) Val {
	if tup, ok := t.(*types.Tuple); ok {
		v := Val{T: t, Tup: []Val{}}
		for i := 0; i < tup.Len(); i++ {
			v.Tup = append(v.Tup, e.zeroVal(tup.At(i).Type()))
		}
		return v
	}
	v := Val{T: t}
	for _, c := range comps(t) {
		v.C = append(v.C, e.zeroOf(c.Sort))
	}
	e.setPtrMeta(&v)
	return v
}

func (e *Engine) zeroOf(s *smt.Sort) *smt.Term {
	switch s.Kind {
	case smt.KBool:
		return e.X.False
	case smt.KBV:
		return e.X.Const(0, s.W)
	default:
		return e.X.ConstArray(s, e.zeroOf(s.Elem))
	}
}

func (e *Engine) intVal(t types.Type, x *smt.Term) Val { return Val{T: t, C: []*smt.Term{x}} }
func (e *Engine) boolVal(x *smt.Term) Val              { return Val{T: types.Typ[types.Bool], C: []*smt.Term{x}} }
func (e *Engine) constInt(v int64) *smt.Term           { return e.X.Const(uint64(v), 64) }

// ite merges two values of the same type component-wise.
func (e *Engine) iteVal(c *smt.Term, a, b Val) Val {
	if c.IsTrue() {
		return a
	}
	if c.IsFalse() {
		return b
	}
	if a.Tup != nil || b.Tup != nil {
		if len(a.Tup) != len(b.Tup) {
			bail("merge of tuples of different arity")
		}
		r := Val{T: a.T, Tup: []Val{}}
		for i := range a.Tup {
			r.Tup = append(r.Tup, e.iteVal(c, a.Tup[i], b.Tup[i]))
		}
		return r
	}
	if len(a.C) != len(b.C) {
		bail("merge of values with different shapes: %s vs %s", a.T, b.T)
	}
	r := a
	r.C = make([]*smt.Term, len(a.C))
	same := true
	for i := range a.C {
		r.C[i] = e.X.Ite(c, a.C[i], b.C[i])
		if a.C[i] != b.C[i] {
			same = false
		}
	}
	// static metadata must agree unless one side is a nil constant
	if a.Cell != b.Cell || a.Clo != b.Clo && !(sameClo(a.Clo, b.Clo)) || a.Root != b.Root || a.RootT != b.RootT || a.Path != b.Path {
		switch {
		case same && a.Cell == b.Cell:
		case e.isNilConst(a):
			r.Cell, r.Clo, r.Root, r.RootT, r.Path = b.Cell, b.Clo, b.Root, b.RootT, b.Path
			if b.Cell != nil || b.Clo != nil {
				bail("merge of nil with a static pointer/closure")
			}
		case e.isNilConst(b):
			if a.Cell != nil || a.Clo != nil {
				bail("merge of nil with a static pointer/closure")
			}
		default:
			bail("merge of pointers with different static targets (%s)", a.T)
		}
	}
	if a.Bound != b.Bound {
		if a.Bound == 0 || b.Bound == 0 {
			r.Bound = 0
		} else if b.Bound > a.Bound {
			r.Bound = b.Bound
		}
	}
	if len(a.Elems) > 0 || len(b.Elems) > 0 {
		r.Elems = nil
	}
	return r
}

func sameClo(a, b *Closure) bool {
	if a == nil || b == nil {
		return a == b
	}
	return a.Fn == b.Fn && len(a.Bindings) == 0 && len(b.Bindings) == 0
}

func (e *Engine) isNilConst(v Val) bool {
	if len(v.C) == 0 || v.Cell != nil || v.Clo != nil {
		return false
	}
	return v.C[0].IsConst() && v.C[0].V == 0
}

// sliceParts / ptrParts accessors
func (v Val) ref() *smt.Term { return v.C[0] }
func (v Val) off() *smt.Term { return v.C[1] }
func (v Val) ln() *smt.Term  { return v.C[2] }
func (v Val) cp() *smt.Term  { return v.C[3] }

func shortType(t types.Type) string {
	s := types.TypeString(t, func(p *types.Package) string { return p.Name() })
	return strings.ReplaceAll(s, " ", "")
}
