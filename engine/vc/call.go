package vc

import (
	"fmt"
	"go/token"
	"go/types"
	"strings"

	"govc/contracts"
	"govc/smt"

	"golang.org/x/tools/go/ssa"
)

func (e *Engine) doCall(f *frame, x *ssa.Call) Val {
	cc := x.Common()
	var args []Val
	for _, a := range cc.Args {
		args = append(args, e.operand(f, a))
	}
	if cc.IsInvoke() {
		recv := e.operand(f, cc.Value)
		return e.invoke(f, x, recv, cc.Method, args)
	}
	switch callee := cc.Value.(type) {
	case *ssa.Builtin:
		return e.builtin(f, x, callee.Name(), args, cc.Args)
	case *ssa.Function:
		return e.callFunction(f, callee, args, nil, cc.Args, x.Pos())
	case *ssa.MakeClosure:
		clo := e.operand(f, callee)
		return e.callFunction(f, clo.Clo.Fn, args, clo.Clo.Bindings, cc.Args, x.Pos())
	}
	fv := e.operand(f, cc.Value)
	if fv.Clo != nil {
		return e.callFunction(f, fv.Clo.Fn, args, fv.Clo.Bindings, cc.Args, x.Pos())
	}
	return e.callUnknownFunc(f, x, fv, args)
}

func (e *Engine) isSpecFunc(fn *ssa.Function) bool {
	if fn.Pos() == token.NoPos {
		if fn.Parent() != nil {
			return e.isSpecFunc(fn.Parent())
		}
		return false
	}
	file := e.Prog.Fset.Position(fn.Pos()).Filename
	return strings.HasSuffix(file, contracts.ContractFile) || strings.HasSuffix(file, contracts.GenFile)
}

func (e *Engine) inRepo(fn *ssa.Function) bool {
	if fn.Pkg == nil {
		if fn.Parent() != nil {
			return e.inRepo(fn.Parent())
		}
		return false
	}
	return strings.HasPrefix(fn.Pkg.Pkg.Path(), e.RepoPrefix)
}

func (e *Engine) callFunction(f *frame, fn *ssa.Function, args []Val, bindings []Val, argVals []ssa.Value, pos token.Pos) Val {
	name := fn.Name()
	if fn.Pkg != nil || fn.Parent() != nil {
		switch name {
		case "verifForall", "verifExists":
			if e.isSpecFunc(fn) {
				return e.quantifier(f, name == "verifForall", args)
			}
		case "verifFresh":
			if e.isSpecFunc(fn) {
				return e.freshPred(f, argVals)
			}
		case "verifBufOK":
			if e.isSpecFunc(fn) {
				// representation invariant of bytes.Buffer: 0 <= off <= len(buf) (fields are unexported)
				mi, isMI := argVals[0].(*ssa.MakeInterface)
				if !isMI {
					bail("verifBufOK of an interface value")
				}
				b := e.operand(f, mi.X)
				bt := pointee(b.T)
				offP := Val{T: types.NewPointer(types.Typ[types.Int]), C: b.C, Root: RootObj, RootT: typeKey(bt), Path: ".off"}
				bufP := Val{T: types.NewPointer(types.NewSlice(types.Typ[types.Uint8])), C: b.C, Root: RootObj, RootT: typeKey(bt), Path: ".buf"}
				off := e.load(f.st, offP).C[0]
				buf := e.load(f.st, bufP)
				return e.boolVal(e.X.And(e.X.Sle(e.X.Const(0, 64), off), e.X.Sle(off, buf.ln())))
			}
		case "verifVisited":
			if e.isSpecFunc(fn) {
				// verifVisited(m, k): key k has already been produced by the active iteration over m
				mi, isMI := argVals[0].(*ssa.MakeInterface)
				if !isMI {
					bail("verifVisited of an interface value")
				}
				mv := e.operand(f, mi.X)
				var it *mapIter
				for _, cand := range e.iters {
					if len(cand.m.C) == 1 && len(mv.C) == 1 && cand.m.C[0] == mv.C[0] {
						it = cand
					}
				}
				if it == nil {
					bail("verifVisited: no active iteration over this map")
				}
				kw := it.mi.ksort.W
				kt := args[1].C[0]
				if kw < 64 {
					kt = e.X.Extract(kw-1, 0, kt)
				}
				return e.boolVal(e.X.Select(f.st.Cells[it.cell].C[0], kt))
			}
		case "verifSeparate":
			if e.isSpecFunc(fn) {
				var refs []*smt.Term
				for _, av := range argVals {
					mi, ok := av.(*ssa.MakeInterface)
					if !ok {
						bail("verifSeparate of an interface value")
					}
					v := e.operand(f, mi.X)
					if v.Cell != nil {
						return e.boolVal(e.X.True)
					}
					refs = append(refs, v.C[0])
				}
				return e.boolVal(e.X.Not(e.X.Eq(refs[0], refs[1])))
			}
		case "verifSnap", "verifSnapPtrs":
			if e.isSpecFunc(fn) {
				ref := e.snapshotBytes(f.st, args[0], true)
				return Val{T: args[0].T, C: []*smt.Term{ref, args[0].off(), args[0].ln(), args[0].ln()}, Bound: args[0].Bound}
			}
		}
	}
	if e.Opaque[fn] {
		return e.callOpaque(f, fn, args)
	}
	if e.inInit && fn.Name() == "init" && fn.Signature.Recv() == nil {
		// initialisers of imported packages: repository packages are evaluated too, others skipped
		if fn.Pkg != nil && e.inRepo(fn) && len(fn.Blocks) > 0 {
			_, st, _ := e.runFunc(fn, nil, nil, f.st, nil)
			f.st = st
		}
		return Val{T: types.NewTuple(), Tup: []Val{}}
	}
	if fc, ok := e.Contracts[fn]; ok && fn != e.verifying || ok && e.specDepth > 0 {
		return e.useContract(f, fc, args, pos)
	}
	if fc, ok := e.Contracts[fn]; ok && fn == e.verifying {
		// recursion: use own contract (termination of recursion is not proved here)
		return e.useContract(f, fc, args, pos)
	}
	if r, ok := e.stdModel(f, fn, args, pos); ok {
		return r
	}
	if len(fn.Blocks) > 0 && (e.inInit && e.inRepo(fn) || e.isSpecFunc(fn) || e.Transparent[fn] || !e.inRepo(fn) && e.stdInline(fn) || fn.Parent() != nil) {
		if !e.isSpecFunc(fn) && e.specDepth == 0 {
			e.Inlined[fn.String()] = true
		}
		savedCtx := e.callCtx
		if e.forced != nil && e.specDepth == 0 && f.split && e.Transparent[fn] {
			// inlined repository code takes part in path splitting, keyed by its call path
			e.ctxSeq++
			e.callCtx = fmt.Sprintf("%s:%s#%d", f.ctx, fn.Name(), e.siteIndex(f, pos))
			e.splitInlined = true
		}
		res, st, rpc := e.runFunc(fn, args, bindings, f.st, nil)
		e.callCtx = savedCtx
		e.splitInlined = false
		f.st = st
		// the callee may fail to return (explicit panic): continue only where it returns
		if !rpc.IsTrue() {
			e.assume(e.X.Implies(e.pc, rpc))
		}
		return res
	}
	if e.specDepth > 0 {
		bail("spec expression calls %s which has neither contract nor transparent body", fn)
	}
	e.failNow("callee-contract", "no contract for "+fn.String(), pos)
	return e.freshVal("havoc_"+fn.Name(), fn.Signature.Results().At(0).Type())
}

func resultType(sig *types.Signature) types.Type {
	switch sig.Results().Len() {
	case 0:
		return types.NewTuple()
	case 1:
		return sig.Results().At(0).Type()
	}
	return sig.Results()
}

// evalSpec evaluates a generated contract function (pure) in state st; returns its value.
// The state is threaded because old(verifSnap(..)) allocates snapshots.
func (e *Engine) evalSpec(pkg *ssa.Package, fname string, args []Val, st *State) (Val, *State) {
	fn := pkg.Func(fname)
	if fn == nil {
		bail("generated function %s not found in %s", fname, pkg.Pkg.Path())
	}
	e.specDepth++
	defer func() { e.specDepth-- }()
	// parameter types of the generated function are authoritative
	as := make([]Val, len(args))
	for i := range args {
		as[i] = args[i]
		if as[i].Cell == nil && as[i].Clo == nil && as[i].Tup == nil {
			as[i].T = fn.Signature.Params().At(i).Type()
		}
	}
	res, st2, _ := e.runFunc(fn, as, nil, st.clone(), nil)
	return res, st2
}

func flatResults(rv Val, n int) []Val {
	switch n {
	case 0:
		return nil
	case 1:
		return []Val{rv}
	}
	return rv.Tup
}

// useContract: assert requires, havoc the frame, assume ensures.
func (e *Engine) useContract(f *frame, fc *FnContract, args []Val, pos token.Pos) Val {
	X := e.X
	c := fc.C
	pkg := fc.Fn.Pkg
	callee := e.nameOf(fc.Fn)
	for _, cl := range c.Requires {
		v, _ := e.evalSpec(pkg, cl.Func, args, f.st)
		if e.specDepth == 0 {
			e.oblige("requires", callee+":"+trunc(cl.Text, 60), v.C[0], pos)
		}
	}
	// old-expressions in the pre-state
	olds := map[string]Val{}
	for _, cl := range c.Ensures {
		for _, of := range cl.OldFn {
			v, st2 := e.evalSpec(pkg, of, args, f.st)
			f.st = st2
			olds[of] = v
		}
	}
	savedBase := e.freshBase
	callBase := f.st.Alloc
	// frame
	locs := e.evalModifies(fc, args, f.st)
	if e.specDepth == 0 && e.frameOn {
		for _, l := range locs {
			e.oblige("frame", callee+" modifies "+l.text, e.locAllowed(l), pos)
		}
	}
	e.havocLocs(f.st, locs)
	// allocation counter may have advanced
	na := X.Fresh("alloc", RefSort)
	X.FreshBase[na.ID()] = true
	X.SetAllocLB(na, f.st.Alloc)
	e.assume(X.And(X.Ule(f.st.Alloc, na), X.Ule(na, X.Const(0x07ffffff, 32)))) // stated assumption: fewer than 2^27 allocations
	f.st.Alloc = na
	rt := resultType(fc.Fn.Signature)
	res := e.freshVal("r_"+fc.Fn.Name(), rt)
	if res.Tup != nil {
		for _, t := range res.Tup {
			e.assumeWellTyped(f.st, t)
		}
	} else {
		e.assumeWellTyped(f.st, res)
	}
	e.freshBase = callBase
	rs := flatResults(res, fc.Fn.Signature.Results().Len())
	type def struct {
		arr, idx, val, guard *smt.Term
		lo, hi               int
		quant                bool
	}
	var defs []def
	// matchDef recognises  hv[i] == t  with hv a fresh havoc array and t free of hv.
	matchDef := func(cj *smt.Term) (arr, idx, val *smt.Term, ok bool) {
		if cj.Op != "=" {
			return
		}
		for i := 0; i < 2; i++ {
			a, b := cj.Args[i], cj.Args[1-i]
			if a.Op == "select" {
				if _, isHv := e.havocArr[a.Args[0]]; isHv && !mentions(b, a.Args[0]) {
					return a.Args[0], a.Args[1], b, true
				}
			}
		}
		return
	}
	for _, cl := range c.Ensures {
		as := append(append([]Val{}, args...), rs...)
		for _, of := range cl.OldFn {
			as = append(as, olds[of])
		}
		v, _ := e.evalSpec(pkg, cl.Func, as, f.st)
		// conjuncts that say  object[i] == t  (for one index or for all indices of a range, possibly
		// under a guard) define the havocked post-state instead of merely constraining it
		var rest []*smt.Term
		for _, cj := range conjuncts(v.C[0]) {
			guard := X.True
			core := cj
			if cj.Op == "or" {
				// guard ==> core   is   (not guard) or core  with exactly one candidate core
				var others []*smt.Term
				var cand *smt.Term
				for _, d := range cj.Args {
					isCand := false
					if d.Op == "forall" && d.Name == "range" {
						_, _, _, isCand = matchDef(d.Args[0])
					} else {
						_, _, _, isCand = matchDef(d)
					}
					if isCand && cand == nil {
						cand = d
					} else {
						others = append(others, d)
					}
				}
				if cand != nil {
					core = cand
					guard = X.Not(X.Or(others...))
				}
			}
			if core.Op == "forall" && core.Name == "range" {
				if arr, idx, val, ok := matchDef(core.Args[0]); ok && idx == core.Bound[0] && !mentions(guard, arr) {
					defs = append(defs, def{arr, idx, val, guard, core.I1, core.I2, true})
					continue
				}
			} else if arr, idx, val, ok := matchDef(core); ok && !idx.Open() && !mentions(guard, arr) {
				defs = append(defs, def{arr, idx, val, guard, 0, 0, false})
				continue
			}
			rest = append(rest, cj)
		}
		e.assume(X.And(rest...))
	}
	for _, d := range defs {
		hi := e.havocArr[d.arr]
		h := e.heap(f.st, hi.key, e.heapSorts[hi.key])
		obj := X.Select(h, hi.ref)
		if X.Select(obj, d.idx) != X.Select(d.arr, d.idx) {
			// the clause constrains something other than the freshly havocked bytes: keep it as a fact
			fact := X.Eq(X.Select(d.arr, d.idx), d.val)
			if d.quant {
				fact = X.ForallRange(d.idx, d.lo, d.hi, fact)
			}
			e.assume(X.Implies(d.guard, fact))
			continue
		}
		var nobj *smt.Term
		if d.quant {
			w := d.idx.S.W
			inr := X.And(X.Sle(X.Const(uint64(int64(d.lo)), w), d.idx), X.Slt(d.idx, X.Const(uint64(int64(d.hi)), w)))
			nobj = X.Lambda(d.idx, X.Ite(X.And(d.guard, inr), d.val, X.Select(obj, d.idx)))
		} else {
			nobj = X.Store(obj, d.idx, X.Ite(d.guard, d.val, X.Select(obj, d.idx)))
		}
		f.st.Heaps[hi.key] = X.Store(h, hi.ref, nobj)
	}
	e.freshBase = savedBase
	return res
}

func trunc(s string, n int) string {
	if len(s) > n {
		return s[:n] + "…"
	}
	return s
}

// evalModifies evaluates the modifies clause of fc for the given arguments in state st.
func (e *Engine) evalModifies(fc *FnContract, args []Val, st *State) []frameLoc {
	var locs []frameLoc
	for _, ml := range fc.C.Modifies {
		if ml.Kind == "nothing" {
			continue
		}
		base, _ := e.evalSpec(fc.Fn.Pkg, ml.BaseFn, args, st)
		fl := frameLoc{kind: ml.Kind, text: ml.Text}
		switch ml.Kind {
		case "deref":
			pt, ok := base.T.Underlying().(*types.Pointer)
			if !ok {
				bail("modifies *%s: not a pointer", ml.Base)
			}
			fl.ref = base.ref()
			if at, ok := pt.Elem().Underlying().(*types.Array); ok {
				fl.keyPfx = "arr:" + typeKey(at.Elem()) + "/"
				fl.kind = "deref"
			} else {
				fl.keyPfx = "obj:" + typeKey(pt.Elem()) + "/"
			}
		case "whole":
			if pt, ok := base.T.Underlying().(*types.Pointer); ok && typeKey(pt.Elem()) == "bytes.Buffer" {
				// b[*] for a *bytes.Buffer: the Buffer's backing array
				bufP := Val{T: types.NewPointer(types.NewSlice(types.Typ[types.Uint8])), C: base.C, Root: RootObj, RootT: "bytes.Buffer", Path: ".buf"}
				bv := e.load(st, bufP)
				fl.ref = bv.ref()
				fl.kind = "deref"
				fl.keyPfx = "arr:uint8/"
				break
			}
			u, ok := base.T.Underlying().(*types.Slice)
			if !ok {
				bail("modifies %s: base is not a slice", ml.Text)
			}
			fl.ref = base.ref()
			fl.kind = "deref"
			fl.keyPfx = "arr:" + typeKey(u.Elem()) + "/"
		case "all", "range":
			var off, ln *smt.Term
			switch u := base.T.Underlying().(type) {
			case *types.Pointer:
				at := u.Elem().Underlying().(*types.Array)
				fl.keyPfx = "arr:" + typeKey(at.Elem()) + "/"
				off, ln = base.off(), e.X.Const(uint64(at.Len()), 64)
			case *types.Slice:
				fl.keyPfx = "arr:" + typeKey(u.Elem()) + "/"
				off, ln = base.off(), base.ln()
			default:
				bail("modifies %s: base is neither slice nor array pointer", ml.Text)
			}
			fl.ref = base.ref()
			fl.kind = "range"
			if ml.Kind == "all" {
				fl.lo, fl.hi = off, e.X.BVAdd(off, ln)
			} else {
				lo, _ := e.evalSpec(fc.Fn.Pkg, ml.LoFn, args, st)
				hi, _ := e.evalSpec(fc.Fn.Pkg, ml.HiFn, args, st)
				fl.lo, fl.hi = e.X.BVAdd(off, lo.C[0]), e.X.BVAdd(off, hi.C[0])
			}
		case "field":
			pt, ok := base.T.Underlying().(*types.Pointer)
			if !ok {
				bail("modifies %s: base is not a pointer to struct", ml.Text)
			}
			fl.ref = base.ref()
			fl.keyPfx = "obj:" + typeKey(pt.Elem()) + "/." + ml.Field
		}
		locs = append(locs, fl)
	}
	return locs
}

// locAllowed: the callee's write set lies within the caller's frame (or in fresh memory).
func (e *Engine) locAllowed(l frameLoc) *smt.Term {
	X := e.X
	alts := []*smt.Term{e.isFresh(e.alloc0, l.ref)}
	if l.kind == "range" {
		alts = append(alts, X.Ule(l.hi, l.lo))
	}
	if strings.HasPrefix(l.keyPfx, "arr:") {
		alts = append(alts, X.Eq(l.ref, X.Const(0, 32))) // the array of a nil slice: nothing to write
	}
	for _, m := range e.frameLocs {
		if !keyCovers(m, l.keyPfx) {
			continue
		}
		same := X.Eq(m.ref, l.ref)
		switch {
		case m.kind == "range" && l.kind == "range":
			alts = append(alts, X.And(same, X.Ule(m.lo, l.lo), X.Ule(l.hi, m.hi)))
		case m.kind == "range":
			// caller allows only a range, callee wants the whole object
		default:
			alts = append(alts, same)
		}
	}
	return X.Or(alts...)
}

func keyCovers(m frameLoc, key string) bool {
	if m.kind == "field" {
		return key == m.keyPfx || strings.HasPrefix(key, m.keyPfx+".") || strings.HasPrefix(key, m.keyPfx+"[")
	}
	return strings.HasPrefix(key, m.keyPfx)
}

// frameCheck: a store through p (pointee type t) must hit the frame or fresh memory.
func (e *Engine) frameCheck(p Val, t types.Type, pos token.Pos) {
	if !e.frameOn || e.specDepth > 0 {
		return
	}
	X := e.X
	if p.ref().IsConst() {
		return
	}
	slots := e.slotsFor(p, t)
	if len(slots) == 0 {
		return
	}
	alts := []*smt.Term{e.isFresh(e.alloc0, p.ref())}
	for _, m := range e.frameLocs {
		ok := true
		for _, s := range slots {
			if !keyCovers(m, s.key) {
				ok = false
			}
		}
		if !ok {
			continue
		}
		same := X.Eq(m.ref, p.ref())
		if m.kind == "range" {
			if slots[0].whole {
				continue
			}
			alts = append(alts, X.And(same, X.Ule(m.lo, p.off()), X.Ult(p.off(), m.hi)))
		} else {
			alts = append(alts, same)
		}
	}
	e.oblige("frame", "store", X.Or(alts...), pos)
}

// preferVisible asks for counterexamples in which the store changes the byte it hits.
func (e *Engine) preferVisible(st *State, p Val, v Val) {
	if e.specDepth > 0 || !e.frameOn || len(e.Obls) == 0 || len(v.C) != 1 || p.Cell != nil {
		return
	}
	ob := e.Obls[len(e.Obls)-1]
	if ob.Kind != "frame" {
		return
	}
	cur := e.load(st, p)
	if len(cur.C) == 1 && cur.C[0].S == v.C[0].S {
		ob.Prefer = e.X.Not(e.X.Eq(cur.C[0], v.C[0]))
	}
}

// havocLocs replaces the contents of the given locations by unconstrained values.
func (e *Engine) havocLocs(st *State, locs []frameLoc) {
	X := e.X
	for _, l := range locs {
		// every heap whose key is covered; heaps never touched so far are found through heapSorts
		keys := map[string]bool{}
		for k := range st.Heaps {
			keys[k] = true
		}
		for k := range e.heapSorts {
			keys[k] = true
		}
		// make sure at least the canonical key exists for byte arrays
		if l.keyPfx == "arr:uint8/" {
			keys["arr:uint8/"] = true
			if _, ok := e.heapSorts["arr:uint8/"]; !ok {
				e.heapSorts["arr:uint8/"] = smt.BV(8)
			}
		}
		for k := range keys {
			if !keyCovers(l, k) {
				continue
			}
			leaf := e.heapSorts[k]
			h := e.heap(st, k, leaf)
			switch {
			case strings.HasPrefix(k, "obj:"):
				st.Heaps[k] = X.Store(h, l.ref, X.Fresh("hv", leaf))
			case l.kind == "range":
				old := X.Select(h, l.ref)
				nw := X.Fresh("hv", smt.Array(IntSort, leaf))
				e.havocArr[nw] = havocInfo{k, l.ref}
				// frame inside the object: indices outside [lo,hi) keep their value
				if l.hi == X.BVAdd(l.lo, X.Const(1, 64)) {
					st.Heaps[k] = X.Store(h, l.ref, X.Store(old, l.lo, X.Select(nw, l.lo)))
				} else if l.lo.IsConst() && l.hi.IsConst() && l.hi.V-l.lo.V <= 512 {
					arr := old
					for j := l.lo.V; j < l.hi.V; j++ {
						jj := X.Const(j, 64)
						arr = X.Store(arr, jj, X.Select(nw, jj))
					}
					st.Heaps[k] = X.Store(h, l.ref, arr)
				} else {
					j := X.BVar("hj", IntSort)
					st.Heaps[k] = X.Store(h, l.ref, X.Lambda(j, X.Ite(X.And(X.Ule(l.lo, j), X.Ult(j, l.hi)), X.Select(nw, j), X.Select(old, j))))
				}
			default:
				nw := X.Fresh("hv", smt.Array(IntSort, leaf))
				e.havocArr[nw] = havocInfo{k, l.ref}
				st.Heaps[k] = X.Store(h, l.ref, nw)
			}
		}
	}
}

// quantifier implements verifForall / verifExists(lo, hi, func(i int) bool).
func (e *Engine) quantifier(f *frame, forall bool, args []Val) Val {
	X := e.X
	lo, hi := args[0].C[0], args[1].C[0]
	clo := args[2].Clo
	if clo == nil {
		bail("quantifier body is not a function literal")
	}
	body := func(i *smt.Term) *smt.Term {
		e.specDepth++
		defer func() { e.specDepth-- }()
		saved := e.pc
		e.pc = X.True // assumptions made while evaluating the body (typing facts) are unconditional
		defer func() { e.pc = saved }()
		r, _, _ := e.runFunc(clo.Fn, []Val{e.intVal(types.Typ[types.Int], i)}, clo.Bindings, f.st.clone(), nil)
		return r.C[0]
	}
	if lo.IsConst() && hi.IsConst() && sext64(hi.V)-sext64(lo.V) > 8 && sext64(hi.V)-sext64(lo.V) <= 4096 && forall && !e.ExpandAll {
		j := X.BVar("q", IntSort)
		return e.boolVal(X.ForallRange(j, int(sext64(lo.V)), int(sext64(hi.V)), body(j)))
	}
	if lo.IsConst() && hi.IsConst() && sext64(hi.V)-sext64(lo.V) <= 1024 {
		var cs []*smt.Term
		for k := sext64(lo.V); k < sext64(hi.V); k++ {
			cs = append(cs, body(X.Const(uint64(k), 64)))
		}
		if forall {
			return e.boolVal(X.And(cs...))
		}
		return e.boolVal(X.Or(cs...))
	}
	j := X.BVar("q", IntSort)
	rng := X.And(X.Sle(lo, j), X.Slt(j, hi))
	b := body(j)
	if forall {
		return e.boolVal(X.Forall([]*smt.Term{j}, X.Implies(rng, b)))
	}
	return e.boolVal(X.Exists([]*smt.Term{j}, X.And(rng, b)))
}

func sext64(v uint64) int64 { return int64(v) }

func (e *Engine) freshPred(f *frame, argVals []ssa.Value) Val {
	X := e.X
	base := e.freshBase
	if base == nil {
		base = e.alloc0
	}
	var v Val
	if mi, ok := argVals[0].(*ssa.MakeInterface); ok {
		v = e.operand(f, mi.X)
	} else {
		bail("fresh() of an interface value")
	}
	if v.Cell != nil {
		return e.boolVal(X.True)
	}
	return e.boolVal(X.And(e.isFresh(base, v.C[0]), X.Not(X.Eq(v.C[0], X.Const(0, 32)))))
}

// ---- builtins

func (e *Engine) builtin(f *frame, x *ssa.Call, name string, args []Val, argVals []ssa.Value) Val {
	X := e.X
	switch name {
	case "len", "cap":
		a := args[0]
		switch u := a.T.Underlying().(type) {
		case *types.Slice:
			if name == "len" {
				return e.intVal(types.Typ[types.Int], a.ln())
			}
			return e.intVal(types.Typ[types.Int], a.cp())
		case *types.Basic:
			return e.intVal(types.Typ[types.Int], a.C[2])
		case *types.Pointer:
			at := u.Elem().Underlying().(*types.Array)
			return e.intVal(types.Typ[types.Int], X.Const(uint64(at.Len()), 64))
		case *types.Array:
			return e.intVal(types.Typ[types.Int], X.Const(uint64(u.Len()), 64))
		case *types.Map:
			return e.mapLen(f, a)
		}
		bail("%s of %s", name, a.T)
	case "copy":
		return e.copyBuiltin(f, x, args)
	case "append":
		return e.appendBuiltin(f, x, args)
	case "min", "max":
		acc := args[0]
		for _, b := range args[1:] {
			var lt *smt.Term
			if isSigned(acc.T) {
				lt = X.Slt(b.C[0], acc.C[0])
			} else {
				lt = X.Ult(b.C[0], acc.C[0])
			}
			if name == "max" {
				lt = X.Not(X.Or(lt, X.Eq(b.C[0], acc.C[0])))
				acc = e.intVal(acc.T, X.Ite(lt, b.C[0], acc.C[0]))
				continue
			}
			acc = e.intVal(acc.T, X.Ite(lt, b.C[0], acc.C[0]))
		}
		return acc
	case "print", "println":
		return Val{T: types.NewTuple(), Tup: []Val{}}
	case "delete":
		e.mapDelete(f, args[0], args[1])
		return Val{T: types.NewTuple(), Tup: []Val{}}
	}
	bail("builtin %s", name)
	return Val{}
}

// copyBuiltin: memmove semantics on the element heaps.
func (e *Engine) copyBuiltin(f *frame, x *ssa.Call, args []Val) Val {
	X := e.X
	dst, src := args[0], args[1]
	var elem types.Type
	if s, ok := dst.T.Underlying().(*types.Slice); ok {
		elem = s.Elem()
	} else {
		bail("copy into %s", dst.T)
	}
	srcLen := src.ln()
	if isString(src.T) {
		srcLen = src.C[2]
	}
	n := X.Ite(X.Ult(srcLen, dst.ln()), srcLen, dst.ln())
	// frame: the written range
	if e.frameOn && e.specDepth == 0 && !dst.ref().IsConst() {
		l := frameLoc{kind: "range", ref: dst.ref(), keyPfx: "arr:" + typeKey(elem) + "/", lo: dst.off(), hi: X.BVAdd(dst.off(), n), text: "copy"}
		e.oblige("frame", "copy", e.locAllowed(l), x.Pos())
		// a counterexample is observable when the copied bytes differ from what they overwrite
		if e.specDepth == 0 && typeKey(elem) == "uint8" {
			h := e.heap(f.st, "arr:uint8/", smt.BV(8))
			var diff []*smt.Term
			for k := 0; k < 16; k++ {
				kk := X.Const(uint64(k), 64)
				diff = append(diff, X.Implies(X.Ult(kk, n), X.Not(X.Eq(X.Select(X.Select(h, src.ref()), X.BVAdd(src.off(), kk)), X.Select(X.Select(h, dst.ref()), X.BVAdd(dst.off(), kk))))))
			}
			e.Obls[len(e.Obls)-1].Prefer = X.And(diff...)
		}
	}
	bound := 0
	if dst.Bound > 0 {
		bound = dst.Bound
	}
	if src.Bound > 0 && (bound == 0 || src.Bound < bound) {
		bound = src.Bound
	}
	if n.IsConst() {
		bound = int(n.V)
	}
	for _, c := range comps(elem) {
		key := "arr:" + typeKey(elem) + "/" + c.Suffix
		h := e.heap(f.st, key, c.Sort)
		sArr := X.Select(h, src.ref())
		dArr := X.Select(h, dst.ref())
		// memmove as an array comprehension: nd[j] = doff <= j < doff+n ? src[soff+(j-doff)] : dst[j]
		_ = bound
		j := X.BVar("cj", IntSort)
		// j lies in [dst.off, dst.off+n): stated relative to the slice start, which lets index sums cancel
		inr := X.Ult(X.BVSub(j, dst.off()), n)
		nd := X.Lambda(j, X.Ite(inr, X.Select(sArr, X.BVAdd(src.off(), X.BVSub(j, dst.off()))), X.Select(dArr, j)))
		e.setHeap(f.st, key, X.Store(h, dst.ref(), nd))
	}
	return e.intVal(types.Typ[types.Int], n)
}

// callUnknownFunc: a call through a function value loaded from a field declared "purefield" is an
// application of an uninterpreted function of the function value and the arguments (slices
// contribute their contents); nothing is modified. Any other unknown target is unsupported.
func (e *Engine) callUnknownFunc(f *frame, x *ssa.Call, fv Val, args []Val) Val {
	X := e.X
	origin := ""
	if ld, ok := x.Call.Value.(*ssa.UnOp); ok {
		if fa, ok := ld.X.(*ssa.FieldAddr); ok {
			if st := derefStruct(fa.X.Type()); st != nil {
				tn := types.TypeString(pointee(fa.X.Type()), nil)
				origin = tn + "." + st.Field(fa.Field).Name()
			}
		}
	}
	if !e.PureFields[origin] {
		bail("call through a function value with unknown target in %s", f.fn.Name())
	}
	e.UsedStd["assumed: the function stored in "+origin+" is pure and total"] = true
	flat := []*smt.Term{fv.C[0]}
	for _, a := range args {
		if sl, ok := a.T.Underlying().(*types.Slice); ok {
			for _, c := range comps(sl.Elem()) {
				h := e.heap(f.st, "arr:"+typeKey(sl.Elem())+"/"+c.Suffix, c.Sort)
				j := X.BVarFixed("pj", IntSort)
				// the contents as seen through the slice: (lambda j. backing[off+j]) and the length
				flat = append(flat, X.Lambda(j, X.Select(X.Select(h, a.ref()), X.BVAdd(a.off(), j))))
			}
			flat = append(flat, a.ln())
			continue
		}
		if a.Cell != nil || a.Clo != nil {
			bail("static value passed to an unknown function")
		}
		flat = append(flat, a.C...)
	}
	rt := resultType(x.Call.Signature())
	mk := func(t types.Type, name string) Val {
		v := Val{T: t}
		for i, c := range comps(t) {
			v.C = append(v.C, X.App(fmt.Sprintf("fnval|%s|%s|%d", origin, name, i), c.Sort, flat...))
		}
		e.setPtrMeta(&v)
		e.assumeWellTyped(f.st, v)
		return v
	}
	if tup, ok := rt.(*types.Tuple); ok {
		r := Val{T: rt, Tup: []Val{}}
		for i := 0; i < tup.Len(); i++ {
			r.Tup = append(r.Tup, mk(tup.At(i).Type(), fmt.Sprintf("r%d", i)))
		}
		return r
	}
	return mk(rt, "r")
}

func (e *Engine) stdInline(fn *ssa.Function) bool {
	if fn.Pkg == nil {
		return false
	}
	switch fn.Pkg.Pkg.Path() {
	case "encoding/binary", "math/bits", "bytes":
		e.UsedStd[fn.String()] = true
		return true
	}
	return false
}

func (e *Engine) describe(fn *ssa.Function) string { return fmt.Sprint(fn) }

// callOpaque: a recursive spec function is an uninterpreted function of its arguments (byte
// slices contribute the array value of their object, offset and length); each occurrence
// outside an unfolding contributes its defining equation once ("fuel 1").
func (e *Engine) callOpaque(f *frame, fn *ssa.Function, args []Val) Val {
	X := e.X
	var flat []*smt.Term
	for ai, a := range args {
		if ai == 0 && e.Prefix[fn] && len(args) >= 2 {
			if u, ok := a.T.Underlying().(*types.Slice); ok && len(comps(u.Elem())) == 1 && len(args[1].C) == 1 && args[1].C[0].S == IntSort {
				// declared prefix dependence: the function sees s[0:n] only, so its first argument is
				// the comprehension "s[j] for j < n, zero beyond" (two calls on arrays that agree on
				// the prefix are then equal by array extensionality)
				e.UsedStd["assumed: "+fn.Name()+"(s, n, ...) depends only on s[0:n] (declared //@ prefix; true of its recursive definition, not machine-checked)"] = true
				c := comps(u.Elem())[0]
				h := e.heap(f.st, "arr:"+typeKey(u.Elem())+"/"+c.Suffix, c.Sort)
				j := X.BVarFixed("pf", IntSort)
				flat = append(flat, X.Lambda(j, X.Ite(X.Ult(j, args[1].C[0]), X.Select(X.Select(h, a.ref()), X.BVAdd(a.off(), j)), e.zeroOf(c.Sort))))
				continue
			}
		}
		switch u := a.T.Underlying().(type) {
		case *types.Slice:
			for _, c := range comps(u.Elem()) {
				h := e.heap(f.st, "arr:"+typeKey(u.Elem())+"/"+c.Suffix, c.Sort)
				flat = append(flat, X.Select(h, a.ref()))
			}
			flat = append(flat, a.off(), a.ln())
		case *types.Pointer:
			if at, ok := u.Elem().Underlying().(*types.Array); ok {
				for _, c := range comps(at.Elem()) {
					h := e.heap(f.st, "arr:"+typeKey(at.Elem())+"/"+c.Suffix, c.Sort)
					flat = append(flat, X.Select(h, a.ref()))
				}
				flat = append(flat, a.off())
			} else {
				bail("opaque spec function %s takes a pointer to %s", fn.Name(), u.Elem())
			}
		default:
			if a.Cell != nil || a.Clo != nil {
				bail("opaque spec function %s takes a static value", fn.Name())
			}
			flat = append(flat, a.C...)
		}
	}
	rt := resultType(fn.Signature)
	cs := comps(rt)
	res := Val{T: rt}
	for i, c := range cs {
		res.C = append(res.C, X.App(fmt.Sprintf("spec|%s|%d", fn.String(), i), c.Sort, flat...))
	}
	if e.unfolding[fn] {
		return res
	}
	// the defining equation, universally quantified over the integer parameters (the slice /
	// array parameters are the ones of this call), once per such combination
	ukey := fn.String()
	for i, a := range args {
		if _, isBasic := a.T.Underlying().(*types.Basic); !isBasic {
			for _, c := range a.C {
				ukey += fmt.Sprintf("|%d:%d", i, c.ID())
			}
		}
	}
	if e.Recursive[fn] && !e.unfolded[ukey] {
		e.unfolded[ukey] = true
		var bvs []*smt.Term
		qargs := make([]Val, len(args))
		for i, a := range args {
			qargs[i] = a
			if b, isBasic := a.T.Underlying().(*types.Basic); isBasic && b.Info()&types.IsInteger != 0 {
				bv := X.BVar("u", a.C[0].S)
				bvs = append(bvs, bv)
				qargs[i] = Val{T: a.T, C: []*smt.Term{bv}}
			}
		}
		if len(bvs) > 0 {
			e.unfolding[fn] = true
			e.specDepth++
			saved := e.pc
			e.pc = X.True
			lhs := e.callOpaque(f, fn, qargs) // with unfolding set: just the application
			body, _, _ := e.runFunc(fn, qargs, nil, f.st.clone(), nil)
			var eqs []*smt.Term
			for i := range lhs.C {
				eqs = append(eqs, X.Eq(lhs.C[i], body.C[i]))
			}
			e.assume(X.Forall(bvs, X.And(eqs...)))
			e.pc = saved
			e.specDepth--
			e.unfolding[fn] = false
		}
	}
	if res.C[0].Open() {
		return res
	}
	key := fmt.Sprintf("%s|%d", fn.String(), res.C[0].ID())
	if e.unfolded[key] {
		return res
	}
	e.unfolded[key] = true
	e.unfolding[fn] = true
	e.specDepth++
	saved := e.pc
	e.pc = X.True
	body, _, _ := e.runFunc(fn, args, nil, f.st.clone(), nil)
	e.pc = saved
	e.specDepth--
	e.unfolding[fn] = false
	saved = e.pc
	e.pc = X.True
	for i := range res.C {
		e.assume(X.Eq(res.C[i], body.C[i]))
	}
	e.pc = saved
	return res
}

// Conjuncts flattens a conjunction.
func Conjuncts(t *smt.Term) []*smt.Term { return conjuncts(t) }

// WideConjuncts additionally distributes  a ∨ (c1 ∧ … ∧ cn)  into  (a ∨ c1) ∧ … ∧ (a ∨ cn).
func (e *Engine) WideConjuncts(t *smt.Term) []*smt.Term {
	cs := conjuncts(t)
	var out []*smt.Term
	for _, c := range cs {
		if c.Op == "or" {
			wide := -1
			for i, d := range c.Args {
				if d.Op == "and" && len(d.Args) >= 8 {
					if wide >= 0 {
						wide = -2
						break
					}
					wide = i
				}
			}
			if wide >= 0 {
				var rest []*smt.Term
				for i, d := range c.Args {
					if i != wide {
						rest = append(rest, d)
					}
				}
				r := e.X.Or(rest...)
				for _, d := range c.Args[wide].Args {
					out = append(out, e.X.Or(r, d))
				}
				continue
			}
		}
		out = append(out, c)
	}
	return out
}

func conjuncts(t *smt.Term) []*smt.Term {
	if t.Op == "and" {
		var out []*smt.Term
		for _, a := range t.Args {
			out = append(out, conjuncts(a)...)
		}
		return out
	}
	return []*smt.Term{t}
}

func mentions(t, x *smt.Term) bool {
	seen := map[int]bool{}
	var rec func(t *smt.Term) bool
	rec = func(t *smt.Term) bool {
		if t == x {
			return true
		}
		if seen[t.ID()] {
			return false
		}
		seen[t.ID()] = true
		for _, a := range t.Args {
			if rec(a) {
				return true
			}
		}
		return false
	}
	return rec(t)
}

// siteIndex numbers call sites within a frame deterministically (by source position order of use).
func (e *Engine) siteIndex(f *frame, pos token.Pos) int {
	if f.sites == nil {
		f.sites = map[token.Pos]int{}
	}
	if i, ok := f.sites[pos]; ok {
		return i
	}
	i := len(f.sites)
	f.sites[pos] = i
	return i
}

// isFresh: the object (or the object an embedded array belongs to) was allocated at or after base.
// References are below 2^28; bits 28..31 select an array embedded in a struct (see subRef).
func (e *Engine) isFresh(base, ref *smt.Term) *smt.Term {
	m := e.X.BVAnd(ref, e.X.Const(0x0fffffff, 32))
	return e.X.And(e.X.Ule(base, m), e.X.Ule(m, e.X.Const(0x07ffffff, 32)))
}

// subRef: the reference of the k-th array-typed field embedded in the struct object ref.
func (e *Engine) subRef(ref *smt.Term, rootT, path string) *smt.Term {
	key := rootT + "|" + path
	k, ok := e.subIdx[key]
	if !ok {
		n := 0
		for kk := range e.subIdx {
			if strings.HasPrefix(kk, rootT+"|") {
				n++
			}
		}
		if n >= 7 {
			bail("more than 7 array fields in %s", rootT)
		}
		k = n + 1
		e.subIdx[key] = k
	}
	return e.X.BVOr(ref, e.X.Const(uint64(0x80000000|k<<28), 32))
}
