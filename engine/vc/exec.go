package vc

import (
	"fmt"
	"go/constant"
	"go/token"
	"go/types"
	"os"
	"sort"
	"strings"

	"govc/contracts"
	"govc/smt"

	"golang.org/x/tools/go/ssa"
)

// Obligation is one proof goal: Assumps ∧ PC ⇒ Goal.
type Obligation struct {
	Name    string
	Kind    string
	Func    string
	Detail  string
	NAssume int // prefix of the engine's assumption list in force
	PC      *smt.Term
	Goal    *smt.Term
	Pos     string
	Props   []string
	Split   *CaseSplit // prove by exhaustive case analysis on a small-range loop variable
	Prefer  *smt.Term  // for counterexamples: an extra constraint that makes the violation observable
	// filled by the driver
	Verdict string
	Solver  string
	Seconds float64
	Raw     string
	Model   map[string]uint64
}

type havocInfo struct {
	key string
	ref *smt.Term
}

// CaseSplit: the variable (a fresh SMT constant) ranges over [Lo,Hi).
type CaseSplit struct {
	Var    *smt.Term
	Lo, Hi int
}

// FnContract binds a parsed contract to SSA.
type FnContract struct {
	C  *contracts.Contract
	Fn *ssa.Function
}

type Engine struct {
	X    *smt.Ctx
	Prog *ssa.Program

	Contracts   map[*ssa.Function]*FnContract
	Transparent map[*ssa.Function]bool
	Opaque      map[*ssa.Function]bool // recursive spec functions: uninterpreted + one-step unfolding per occurrence
	Recursive   map[*ssa.Function]bool // opaque, plus the defining equation as a quantified axiom
	Prefix      map[*ssa.Function]bool // opaque f(s, n, ...) declared to depend only on s[0:n]
	PureFields  map[string]bool        // pkgpath.Type.field: function-valued fields assumed pure and total
	unfolding   map[*ssa.Function]bool
	unfolded    map[string]bool
	RepoPrefix  string // module path prefix of functions that must have contracts
	ExpandAll   bool   // expand constant-range quantifiers at generation time (no SMT quantifiers)

	Assumptions []*smt.Term
	GoalAssume  map[int]bool // indices of assumptions that are assumed proof goals (assert-then-assume)
	Obls        []*Obligation
	Notes       []string

	pc            *smt.Term
	specDepth     int
	depth         int
	curName       string
	curProps      []string
	counters      map[string]int
	heapSorts     map[string]*smt.Sort
	heapIdx       map[string]*smt.Sort // index sort of map heaps
	iters         map[ssa.Value]*mapIter
	lastIter      *mapIter
	funcIDs       map[*ssa.Function]int
	funcByID      map[int]*Closure
	typeTags      map[string]int
	tagTypes      map[int]types.Type
	globals       map[*ssa.Global]*Cell
	globInit      map[*ssa.Global]Val
	freshBase     *smt.Term // allocation counter at entry of the call whose contract is being evaluated
	frameLocs     []frameLoc
	frameOn       bool
	alloc0        *smt.Term
	strLits       map[string]int
	Observe       []Observable // terms whose model values describe the inputs
	UsedStd       map[string]bool
	Inlined       map[string]bool
	verifying     *ssa.Function
	concrete      []types.Type
	initCache     map[*ssa.Package]*State
	globRefs      map[*ssa.Global]int
	subIdx        map[string]int // embedded array fields: (struct type|path) -> slot
	refGlobCache  map[*ssa.Function][]*ssa.Global
	inInit        bool
	curState      *State                  // state of the block being executed (for value-level operations that read memory)
	h0facts       map[int]bool            // entry-heap references already stated to predate alloc0
	snaps         []snapRec               // ghost snapshots of this run (restored after every heap havoc)
	snapN         int                     // snapshot objects created in this run
	preOlds       map[string]Val          // old-expressions of the verified function's loop invariants (entry state)
	forced        map[string]bool         // branch decisions by call-context-qualified key
	havocArr      map[*smt.Term]havocInfo // fresh arrays introduced by havocLocs
	undecided     []string
	undecidedSeen map[string]bool
	splitInlined  bool // the frame about to be entered is an inlined repository function
	ctxSeq        int
	callCtx       string // call path of the frame being entered (for path splitting)
}

type Observable struct {
	Name string
	T    *smt.Term
}

type frameLoc struct {
	kind   string // deref | range | field
	ref    *smt.Term
	keyPfx string // heap key prefix this location covers
	lo, hi *smt.Term
	text   string
}

func NewEngine(prog *ssa.Program) *Engine {
	e := &Engine{X: smt.NewCtx(), Prog: prog}
	e.Contracts = map[*ssa.Function]*FnContract{}
	e.Transparent = map[*ssa.Function]bool{}
	e.Opaque = map[*ssa.Function]bool{}
	e.Recursive = map[*ssa.Function]bool{}
	e.Prefix = map[*ssa.Function]bool{}
	e.PureFields = map[string]bool{}
	e.initCache = map[*ssa.Package]*State{}
	e.globRefs = map[*ssa.Global]int{}
	e.subIdx = map[string]int{}
	e.refGlobCache = map[*ssa.Function][]*ssa.Global{}
	e.unfolding = map[*ssa.Function]bool{}
	e.reset()
	return e
}

func (e *Engine) reset() {
	e.Assumptions = nil
	e.GoalAssume = map[int]bool{}
	e.Obls = nil
	e.pc = e.X.True
	e.counters = map[string]int{}
	if e.heapSorts == nil {
		e.heapSorts = map[string]*smt.Sort{}
		e.heapIdx = map[string]*smt.Sort{}
	}
	e.iters = nil
	// identities that package-initialiser states (cached across runs) refer to are kept
	if e.funcIDs == nil {
		e.funcIDs = map[*ssa.Function]int{}
		e.funcByID = map[int]*Closure{}
		e.typeTags = map[string]int{}
		e.tagTypes = map[int]types.Type{}
		e.globals = map[*ssa.Global]*Cell{}
		e.strLits = map[string]int{}
	}
	e.globInit = map[*ssa.Global]Val{}
	e.Observe = nil
	e.UsedStd = map[string]bool{}
	e.Inlined = map[string]bool{}
	e.frameLocs = nil
	e.frameOn = false
	e.unfolded = map[string]bool{}
	e.havocArr = map[*smt.Term]havocInfo{}
	e.unfolding = map[*ssa.Function]bool{}
}

func (e *Engine) assume(f *smt.Term) {
	if f.IsTrue() {
		return
	}
	e.Assumptions = append(e.Assumptions, e.X.Implies(e.pc, f))
}

// oblige records a proof goal at the current path condition and then assumes it
// (assert-then-assume, so that one failure does not cascade).
func (e *Engine) oblige(kind, detail string, goal *smt.Term, pos token.Pos) {
	if e.specDepth > 0 {
		return
	}
	k := e.curName + "#" + kind
	n := e.counters[k]
	e.counters[k]++
	name := fmt.Sprintf("%s:%d", k, n)
	if detail != "" {
		name += ":" + detail
	}
	ob := &Obligation{Name: name, Kind: kind, Func: e.curName, Detail: detail, NAssume: len(e.Assumptions), PC: e.pc, Goal: goal, Props: e.curProps}
	if pos.IsValid() {
		p := e.Prog.Fset.Position(pos)
		ob.Pos = fmt.Sprintf("%s:%d", p.Filename, p.Line)
	}
	if goal.IsTrue() || e.pc.IsFalse() {
		ob.Verdict = "trivial"
	}
	e.Obls = append(e.Obls, ob)
	na := len(e.Assumptions)
	e.assume(goal)
	if len(e.Assumptions) > na {
		e.GoalAssume[na] = true
	}
}

func (e *Engine) tagOf(t types.Type) int {
	k := types.TypeString(t, nil)
	if id, ok := e.typeTags[k]; ok {
		return id
	}
	id := len(e.typeTags) + 1
	e.typeTags[k] = id
	e.tagTypes[id] = t
	return id
}

// ---------- frames

type frame struct {
	fn       *ssa.Function
	vals     map[ssa.Value]Val
	bindings []Val
	args     []Val
	inPC     map[*ssa.BasicBlock]*smt.Term
	outSt    map[*ssa.BasicBlock]*State
	edge     map[[2]int]*smt.Term
	st       *State    // state of the block being executed
	local    *smt.Term // path condition of the current block relative to the function entry
	fc       *FnContract
	loops    map[*ssa.BasicBlock]*loopCtx
	headers  []*ssa.BasicBlock
	base     *smt.Term
	rets     []retRec
	entrySt  *State
	olds     map[string]Val
	panics   bool // an explicit panic was reached on some path
	top      bool // frame of the function under verification
	sites    map[token.Pos]int
	split    bool   // branches of this frame take part in path splitting
	ctx      string // call path from the function under verification
}

type retRec struct {
	pc  *smt.Term
	val Val
	st  *State
}

type loopCtx struct {
	header  *ssa.BasicBlock
	spec    *contracts.Loop
	dec0    *smt.Term
	pres    map[string]Val
	blocks  map[*ssa.BasicBlock]bool
	ordinal int
	mapLoop bool
}

func isBackEdge(from, to *ssa.BasicBlock) bool { return to.Dominates(from) }

func rpo(fn *ssa.Function) []*ssa.BasicBlock {
	seen := map[*ssa.BasicBlock]bool{}
	var post []*ssa.BasicBlock
	var dfs func(b *ssa.BasicBlock)
	dfs = func(b *ssa.BasicBlock) {
		seen[b] = true
		for _, s := range b.Succs {
			if !seen[s] && !isBackEdge(b, s) {
				dfs(s)
			}
		}
		post = append(post, b)
	}
	dfs(fn.Blocks[0])
	for i, j := 0, len(post)-1; i < j; i, j = i+1, j-1 {
		post[i], post[j] = post[j], post[i]
	}
	return post
}

// loopBlocks computes the natural loop of header h.
func loopBlocks(h *ssa.BasicBlock) map[*ssa.BasicBlock]bool {
	in := map[*ssa.BasicBlock]bool{h: true}
	var stack []*ssa.BasicBlock
	for _, p := range h.Preds {
		if isBackEdge(p, h) && !in[p] {
			in[p] = true
			stack = append(stack, p)
		}
	}
	for len(stack) > 0 {
		b := stack[len(stack)-1]
		stack = stack[:len(stack)-1]
		for _, p := range b.Preds {
			if !in[p] {
				in[p] = true
				stack = append(stack, p)
			}
		}
	}
	return in
}

// runFunc symbolically executes fn from state st under the current path condition and
// returns the merged result and final state. The result's path condition is returned too
// (false if the function cannot return normally).
func (e *Engine) runFunc(fn *ssa.Function, args []Val, bindings []Val, st *State, fc *FnContract) (Val, *State, *smt.Term) {
	if len(fn.Blocks) == 0 {
		bail("function %s has no body", fn)
	}
	if fn.Recover != nil {
		bail("function %s uses defer/recover", fn)
	}
	e.depth++
	defer func() { e.depth-- }()
	if e.depth > 60 {
		bail("inlining depth exceeded at %s", fn)
	}
	f := &frame{fn: fn, vals: map[ssa.Value]Val{}, bindings: bindings, args: args, fc: fc,
		inPC: map[*ssa.BasicBlock]*smt.Term{}, outSt: map[*ssa.BasicBlock]*State{}, edge: map[[2]int]*smt.Term{},
		loops: map[*ssa.BasicBlock]*loopCtx{}, base: e.pc, entrySt: st, top: fc != nil}
	f.ctx = e.callCtx
	f.split = e.forced != nil && e.specDepth == 0 && (f.top || e.splitInlined)
	e.splitInlined = false
	for i, p := range fn.Params {
		v := args[i]
		f.vals[p] = v
	}
	for i, fv := range fn.FreeVars {
		f.vals[fv] = bindings[i]
	}
	// loop headers in block-index order = source order
	for _, b := range fn.Blocks {
		for _, p := range b.Preds {
			if isBackEdge(p, b) {
				if _, ok := f.loops[b]; !ok {
					lc := &loopCtx{header: b, blocks: loopBlocks(b), ordinal: len(f.headers) + 1}
					f.loops[b] = lc
					f.headers = append(f.headers, b)
				}
			}
		}
	}
	if fc != nil {
		for _, lp := range fc.C.Loops {
			if lp.Ordinal < 1 || lp.Ordinal > len(f.headers) {
				e.failNow("loop-spec", fmt.Sprintf("contract names loop %d but %s has %d loops (contract drift)", lp.Ordinal, fn.Name(), len(f.headers)), fn.Pos())
				continue
			}
			f.loops[f.headers[lp.Ordinal-1]].spec = lp
		}
	}
	savedPC := e.pc
	defer func() { e.pc = savedPC }()
	order := rpo(fn)
	for _, b := range order {
		e.execBlock(f, b, st)
	}
	// merge returns
	if len(f.rets) == 0 {
		return Val{}, st, e.X.False
	}
	var conds []*smt.Term
	var sts []*State
	for _, r := range f.rets {
		conds = append(conds, r.pc)
		sts = append(sts, r.st)
	}
	out := e.mergeStates(conds, sts)
	res := f.rets[len(f.rets)-1].val
	for i := len(f.rets) - 2; i >= 0; i-- {
		res = e.iteVal(f.rets[i].pc, f.rets[i].val, res)
	}
	if !f.panics && len(f.headers) == 0 && !f.split {
		// loop-free and panic-free: every path returns: the return condition is the entry condition
		return res, out, f.base
	}
	return res, out, e.X.And(f.base, e.X.Or(conds...))
}

func (e *Engine) failNow(kind, detail string, pos token.Pos) {
	saved := e.specDepth
	e.specDepth = 0
	e.oblige(kind, detail, e.X.False, pos)
	e.specDepth = saved
	// do not keep "false" as an assumption
	e.Assumptions = e.Assumptions[:len(e.Assumptions)-1]
	delete(e.GoalAssume, len(e.Assumptions))
	if ob := e.Obls[len(e.Obls)-1]; ob.Verdict == "trivial" {
		ob.Verdict = ""
	}
}

func (e *Engine) execBlock(f *frame, b *ssa.BasicBlock, entry *State) {
	var conds []*smt.Term
	var sts []*State
	var preds []*ssa.BasicBlock
	if b.Index == 0 {
		conds = append(conds, e.X.True)
		sts = append(sts, entry)
		preds = append(preds, nil)
	} else {
		for _, p := range b.Preds {
			if isBackEdge(p, b) {
				continue
			}
			ps, ok := f.outSt[p]
			if !ok {
				continue
			}
			c := e.X.And(f.inPC[p], e.edgeCond(f, p, b))
			if c.IsFalse() {
				continue
			}
			conds = append(conds, c)
			sts = append(sts, ps)
			preds = append(preds, p)
		}
	}
	if len(conds) == 0 {
		return // unreachable
	}
	pcIn := e.X.Or(conds...)
	if e.X.And(f.base, pcIn).IsFalse() {
		return // unreachable in the caller's context
	}
	f.inPC[b] = pcIn
	f.local = pcIn
	e.pc = e.X.And(f.base, pcIn)
	st := e.mergeStates(conds, sts)
	f.st = st
	e.curState = st
	// φ nodes from forward edges
	phiVals := map[*ssa.Phi]Val{}
	for _, ins := range b.Instrs {
		phi, ok := ins.(*ssa.Phi)
		if !ok {
			break
		}
		var acc Val
		have := false
		for i := len(preds) - 1; i >= 0; i-- {
			idx := predIndex(b, preds[i])
			v := e.operand(f, phi.Edges[idx])
			v.T = phi.Type()
			if !have {
				acc, have = v, true
			} else {
				acc = e.iteVal(conds[i], v, acc)
			}
		}
		phiVals[phi] = acc
	}
	for phi, v := range phiVals {
		f.vals[phi] = v
	}
	if lc, ok := f.loops[b]; ok {
		e.enterLoop(f, lc, st)
	}
	for _, ins := range b.Instrs {
		if _, ok := ins.(*ssa.Phi); ok {
			continue
		}
		e.execInstr(f, ins)
		if e.pc.IsFalse() {
			if os.Getenv("GOVC_DEBUG") != "" {
				fmt.Fprintf(os.Stderr, "block %d of %s cut after %s (%T)\n", b.Index, f.fn.Name(), ins, ins)
			}
			break
		}
	}
	f.outSt[b] = f.st
	// back edges leaving this block
	for _, s := range b.Succs {
		if isBackEdge(b, s) {
			e.backEdge(f, b, s)
		}
	}
}

func predIndex(b, p *ssa.BasicBlock) int {
	for i, q := range b.Preds {
		if q == p {
			return i
		}
	}
	return -1
}

func (e *Engine) edgeCond(f *frame, from, to *ssa.BasicBlock) *smt.Term {
	if len(from.Succs) == 2 {
		iff := from.Instrs[len(from.Instrs)-1].(*ssa.If)
		c := f.vals[iff.Cond]
		if cv, ok := iff.Cond.(*ssa.Const); ok {
			c = e.constVal(cv)
		}
		if from.Succs[0] == to && from.Succs[1] == to {
			return e.X.True
		}
		if len(c.C) == 0 {
			return e.X.False // the block was cut short (its path condition became false)
		}
		if f.split && !c.C[0].IsConst() && !c.C[0].IsTrue() && !c.C[0].IsFalse() {
			// path splitting: this branch is explored one side at a time
			// decisions are keyed by the condition itself: a branch on a condition that was
			// already decided (the same term) follows that decision and does not split again
			ct := c.C[0]
			flip := false
			if ct.Op == "not" {
				ct, flip = ct.Args[0], true
			}
			key := fmt.Sprintf("c%d", ct.ID())
			want, ok := e.forced[key]
			if flip {
				want = !want
			}
			if !ok {
				if !e.undecidedSeen[key] {
					e.undecidedSeen[key] = true
					e.undecided = append(e.undecided, key)
				}
			} else if (from.Succs[0] == to) != want {
				return e.X.False
			}
		}
		if from.Succs[0] == to {
			return c.C[0]
		}
		return e.X.Not(c.C[0])
	}
	return e.X.True
}

// splitOn lets a non-branch condition take part in path splitting: when the enclosing frame is
// explored path by path the condition is decided like a branch (both values get their own path).
func (e *Engine) splitOn(f *frame, c *smt.Term) (want bool, forced bool) {
	if !f.split || c.IsConst() || c.IsTrue() || c.IsFalse() {
		return false, false
	}
	flip := false
	if c.Op == "not" {
		c, flip = c.Args[0], true
	}
	key := fmt.Sprintf("c%d", c.ID())
	w, ok := e.forced[key]
	if !ok {
		if !e.undecidedSeen[key] {
			e.undecidedSeen[key] = true
			e.undecided = append(e.undecided, key)
		}
		return false, false
	}
	if flip {
		w = !w
	}
	return w, true
}

// operand evaluates an SSA value in the frame.
func (e *Engine) operand(f *frame, v ssa.Value) Val {
	switch x := v.(type) {
	case *ssa.Const:
		return e.constVal(x)
	case *ssa.Global:
		return e.globalPtr(x)
	case *ssa.Function:
		return Val{T: x.Type(), C: []*smt.Term{e.X.Const(0, 32)}, Clo: &Closure{Fn: x}}
	case *ssa.Builtin:
		bail("builtin %s used as value", x.Name())
	}
	r, ok := f.vals[v]
	if !ok {
		extra := ""
		if ins, ok := v.(ssa.Instruction); ok && ins.Block() != nil {
			b := ins.Block()
			_, ran := f.outSt[b]
			extra = fmt.Sprintf(" [block %d ran=%v inPC=%v base=%v pc=%v]", b.Index, ran, f.inPC[b] != nil && !f.inPC[b].IsFalse(), !f.base.IsFalse(), !e.pc.IsFalse())
		}
		bail("value %s (%T) not computed in %s%s", v.Name(), v, f.fn.Name(), extra)
	}
	return r
}

func (e *Engine) constVal(c *ssa.Const) Val {
	t := c.Type()
	if c.Value == nil {
		// zero value / nil
		if b, ok := t.Underlying().(*types.Basic); ok && b.Kind() == types.UntypedNil {
			return Val{T: t, C: []*smt.Term{e.X.Const(0, 32), e.X.Const(0, 64)}}
		}
		return e.zeroVal(t)
	}
	switch {
	case isBool(t):
		return e.boolVal(e.X.BoolConst(constant.BoolVal(c.Value)))
	case isInt(t):
		w := widthOf(t)
		if i, ok := constant.Int64Val(constant.ToInt(c.Value)); ok {
			return e.intVal(t, e.X.Const(uint64(i), w))
		}
		u, _ := constant.Uint64Val(constant.ToInt(c.Value))
		return e.intVal(t, e.X.Const(u, w))
	case isString(t):
		return e.stringLit(t, constant.StringVal(c.Value))
	}
	bail("constant of type %s", t)
	return Val{}
}

// stringLit: string constants live at reserved references with known content.
func (e *Engine) stringLit(t types.Type, s string) Val {
	id, ok := e.strLits[s]
	if !ok {
		id = len(e.strLits) + 1
		e.strLits[s] = id
	}
	if s == "" {
		return Val{T: t, C: []*smt.Term{e.X.Const(0, 32), e.X.Const(0, 64), e.X.Const(0, 64)}}
	}
	return Val{T: t, C: []*smt.Term{e.X.Const(uint64(0x100+id), 32), e.X.Const(0, 64), e.X.Const(uint64(len(s)), 64)}}
}

func (e *Engine) strLitByRef(ref uint64) (string, bool) {
	for s, id := range e.strLits {
		if uint64(0x100+id) == ref {
			return s, true
		}
	}
	return "", false
}

func (e *Engine) globalPtr(g *ssa.Global) Val {
	// aggregates (arrays, structs) live in the heap at reserved constant references
	switch u := pointee(g.Type()).Underlying().(type) {
	case *types.Array:
		return Val{T: g.Type(), C: []*smt.Term{e.X.Const(uint64(e.globalRef(g)), 32), e.X.Const(0, 64)}, Root: RootArr, RootT: typeKey(u.Elem())}
	case *types.Struct:
		return Val{T: g.Type(), C: []*smt.Term{e.X.Const(uint64(e.globalRef(g)), 32), e.X.Const(0, 64)}, Root: RootObj, RootT: typeKey(pointee(g.Type()))}
	}
	c, ok := e.globals[g]
	if !ok {
		c = &Cell{Name: g.String(), T: pointee(g.Type()), Glob: g}
		e.globals[g] = c
	}
	return Val{T: g.Type(), C: []*smt.Term{e.X.Const(0, 32), e.X.Const(0, 64)}, Cell: c}
}

// globalRef: a stable reserved reference (0x200..0xfff) for a package-level aggregate.
func (e *Engine) globalRef(g *ssa.Global) int {
	if id, ok := e.globRefs[g]; ok {
		return id
	}
	id := 0x200 + len(e.globRefs)
	if id >= 0x1000 {
		bail("too many package-level aggregates")
	}
	e.globRefs[g] = id
	return id
}

// initCell gives the first-read value of a cell: globals get their modelled initial value.
func (e *Engine) initCell(st *State, c *Cell) Val {
	if c.Glob != nil {
		if v, ok := e.globInit[c.Glob]; ok {
			return v
		}
		v := e.globalInitial(c.Glob)
		e.globInit[c.Glob] = v
		return v
	}
	return e.zeroVal(c.T)
}

// globalInitial models package-level variables: error variables are distinct non-nil
// values (written only by package initialisation — stated assumption, checked by scan).
func (e *Engine) globalInitial(g *ssa.Global) Val {
	t := pointee(g.Type())
	if _, ok := t.Underlying().(*types.Interface); ok && types.TypeString(t, nil) == "error" {
		id := e.errGlobalID(g)
		return Val{T: t, C: []*smt.Term{e.X.Const(uint64(e.tagNamed("*errors.errorString")), 32), e.X.Const(uint64(id), 64)}}
	}
	if tv, ok := e.tableGlobal(g); ok {
		return tv
	}
	// unknown global: unconstrained but fixed
	v := e.freshVal("G|"+g.String(), t)
	return v
}

func (e *Engine) errGlobalID(g *ssa.Global) int {
	// stable small ids by name
	var names []string
	for _, m := range g.Pkg.Members {
		if gg, ok := m.(*ssa.Global); ok {
			if types.TypeString(pointee(gg.Type()), nil) == "error" {
				names = append(names, gg.Name())
			}
		}
	}
	sort.Strings(names)
	h := 0
	for _, ch := range g.Pkg.Pkg.Path() {
		h = (h*31 + int(ch)) % 97
	}
	for i, n := range names {
		if n == g.Name() {
			return 0x10000 + h*0x100 + i + 1
		}
	}
	return 0x1ffff
}

func (e *Engine) tableGlobal(g *ssa.Global) (Val, bool) { return Val{}, false }

func (e *Engine) nameOf(fn *ssa.Function) string {
	s := fn.String()
	s = strings.TrimPrefix(s, "(")
	s = strings.ReplaceAll(s, "github.com/Comcast/gots/v2/", "")
	s = strings.ReplaceAll(s, "github.com/Comcast/gots/v2", "gots")
	s = strings.ReplaceAll(s, "*", "")
	s = strings.ReplaceAll(s, ")", "")
	return s
}
