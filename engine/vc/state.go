package vc

import (
	"os"
	"go/types"
	"sort"
	"strings"

	"govc/smt"
)

// State is the symbolic memory at a program point.
type State struct {
	Heaps map[string]*smt.Term
	Cells map[*Cell]Val
	Alloc *smt.Term // next unallocated reference (BV32)
}

func (s *State) clone() *State {
	n := &State{Heaps: make(map[string]*smt.Term, len(s.Heaps)), Cells: make(map[*Cell]Val, len(s.Cells)), Alloc: s.Alloc}
	for k, v := range s.Heaps {
		n.Heaps[k] = v
	}
	for k, v := range s.Cells {
		n.Cells[k] = v
	}
	return n
}

func (e *Engine) heapSortOf(key string, leaf *smt.Sort) *smt.Sort {
	if strings.HasPrefix(key, "arr:") {
		return smt.Array(RefSort, smt.Array(IntSort, leaf))
	}
	if strings.HasPrefix(key, "mapP:") || strings.HasPrefix(key, "mapV:") {
		return smt.Array(RefSort, smt.Array(e.heapIdx[key], leaf))
	}
	return smt.Array(RefSort, leaf)
}

func (e *Engine) heap(st *State, key string, leaf *smt.Sort) *smt.Term {
	if h, ok := st.Heaps[key]; ok {
		return h
	}
	h := e.X.Var("H0|"+key, e.heapSortOf(key, leaf))
	e.heapSorts[key] = leaf
	return h
}

func (e *Engine) setHeap(st *State, key string, h *smt.Term) { st.Heaps[key] = h }

// mergeStates builds ite(c_i, s_i, ...) over mutually exclusive edge conditions.
func (e *Engine) mergeStates(conds []*smt.Term, sts []*State) *State {
	if len(sts) == 1 {
		return sts[0].clone()
	}
	out := sts[len(sts)-1].clone()
	keys := map[string]bool{}
	cells := map[*Cell]bool{}
	for _, s := range sts {
		for k := range s.Heaps {
			keys[k] = true
		}
		for c := range s.Cells {
			cells[c] = true
		}
	}
	var ks []string
	for k := range keys {
		ks = append(ks, k)
	}
	sort.Strings(ks)
	for _, k := range ks {
		leaf := e.heapSorts[k]
		acc := e.heap(sts[len(sts)-1], k, leaf)
		for i := len(sts) - 2; i >= 0; i-- {
			acc = e.X.Ite(conds[i], e.heap(sts[i], k, leaf), acc)
		}
		out.Heaps[k] = acc
	}
	for c := range cells {
		last, ok := sts[len(sts)-1].Cells[c]
		acc := last
		have := ok
		for i := len(sts) - 2; i >= 0; i-- {
			v, ok := sts[i].Cells[c]
			if !ok {
				continue
			}
			if !have {
				acc, have = v, true
				continue
			}
			acc = e.iteVal(conds[i], v, acc)
		}
		if have {
			out.Cells[c] = acc
		}
	}
	acc := sts[len(sts)-1].Alloc
	for i := len(sts) - 2; i >= 0; i-- {
		acc = e.X.Ite(conds[i], sts[i].Alloc, acc)
	}
	out.Alloc = acc
	return out
}

// newRef allocates a fresh reference.
func (e *Engine) newRef(st *State) *smt.Term {
	r := st.Alloc
	st.Alloc = e.X.BVAdd(r, e.X.Const(1, 32))
	// no wrap-around of the allocation counter (stated assumption: fewer than 2^27 allocations)
	if !r.IsConst() && e.specDepth == 0 {
		e.assume(e.X.Ule(r, e.X.Const(0x07ffffff, 32)))
	}
	return r
}

func pointee(t types.Type) types.Type {
	p, ok := t.Underlying().(*types.Pointer)
	if !ok {
		bail("not a pointer: %s", t)
	}
	return p.Elem()
}

// keysFor lists the heap keys and leaf sorts addressed by ptr for a pointee of type t.
type slot struct {
	key     string
	leaf    *smt.Sort
	whole   bool // the pointee component is the whole array of the object (RootArr pointer to array)
	inField bool // array-typed leaf stored inside an object (struct field of array type)
}

func (e *Engine) slotsFor(ptr Val, t types.Type) []slot {
	var out []slot
	_, isArr := t.Underlying().(*types.Array)
	for _, c := range comps(t) {
		switch ptr.Root {
		case RootObj:
			out = append(out, slot{key: "obj:" + ptr.RootT + "/" + ptr.Path + c.Suffix, leaf: c.Sort})
		case RootArr:
			if isArr && ptr.Path == "" {
				if !strings.HasPrefix(c.Suffix, "[]") {
					bail("array component without [] prefix")
				}
				out = append(out, slot{key: "arr:" + ptr.RootT + "/" + c.Suffix[2:], leaf: c.Sort.Elem, whole: true})
			} else {
				out = append(out, slot{key: "arr:" + ptr.RootT + "/" + ptr.Path + c.Suffix, leaf: c.Sort})
			}
		default:
			bail("load/store through pointer without root (%s)", ptr.T)
		}
	}
	return out
}

func (e *Engine) load(st *State, ptr Val) Val {
	t := pointee(ptr.T)
	if ptr.Cell != nil {
		v, ok := st.Cells[ptr.Cell]
		if !ok {
			v = e.initCell(st, ptr.Cell)
		}
		v.T = t
		return v
	}
	res := Val{T: t}
	for _, s := range e.slotsFor(ptr, t) {
		h := e.heap(st, s.key, s.leaf)
		obj := e.X.Select(h, ptr.ref())
		switch {
		case ptr.Root == RootObj:
			res.C = append(res.C, obj)
		case s.whole:
			if !(ptr.off().IsConst() && ptr.off().V == 0) {
				bail("whole-array load through interior pointer")
			}
			res.C = append(res.C, obj)
		default:
			res.C = append(res.C, e.X.Select(obj, ptr.off()))
		}
	}
	e.setPtrMeta(&res)
	e.assumeWellTyped(st, res)
	return res
}

func (e *Engine) store(st *State, ptr Val, v Val) {
	t := pointee(ptr.T)
	if ptr.Cell != nil {
		if v.Clo == nil && v.Cell == nil {
			v.T = t
		}
		st.Cells[ptr.Cell] = v
		return
	}
	if v.Cell != nil {
		bail("storing a pointer to a local cell into the heap")
	}
	if v.Clo != nil {
		// function values in the heap are opaque; remember the closure by its id
		v = e.opaqueFunc(v)
	}
	slots := e.slotsFor(ptr, t)
	if len(slots) != len(v.C) {
		bail("store shape mismatch %s <- %s", t, v.T)
	}
	for i, s := range slots {
		h := e.heap(st, s.key, s.leaf)
		switch {
		case ptr.Root == RootObj:
			h = e.X.Store(h, ptr.ref(), v.C[i])
		case s.whole:
			if !(ptr.off().IsConst() && ptr.off().V == 0) {
				bail("whole-array store through interior pointer")
			}
			h = e.X.Store(h, ptr.ref(), v.C[i])
		default:
			obj := e.X.Select(h, ptr.ref())
			h = e.X.Store(h, ptr.ref(), e.X.Store(obj, ptr.off(), v.C[i]))
		}
		e.setHeap(st, s.key, h)
	}
}

// assumeWellTyped records Go's memory-safety facts about a value that came from
// memory or from the caller: references were allocated before now, slice headers are sane.
func (e *Engine) assumeWellTyped(st *State, v Val) {
	if e.specDepth > 0 {
		// inside specifications nothing is assumed, but a reference read from the entry heap is
		// still known (syntactically) to predate every allocation of the call
		if e.alloc0 != nil {
			for i, c := range comps(v.T) {
				if c.Sort == RefSort && (strings.HasSuffix(c.Suffix, ".r") || strings.HasSuffix(c.Suffix, ".p")) && i < len(v.C) && isInitialHeapRead(v.C[i]) {
					e.X.OldRef[v.C[i].ID()] = true
					if !e.h0facts[v.C[i].ID()] && !v.C[i].IsOpen() {
						// valid on every path: stated without a path condition
						e.h0facts[v.C[i].ID()] = true
						e.Assumptions = append(e.Assumptions, e.X.Ult(v.C[i], e.alloc0))
					}
				}
			}
		}
		return
	}
	var facts []*smt.Term
	cs := comps(v.T)
	for i, c := range cs {
		t := v.C[i]
		if t.IsConst() {
			continue
		}
		switch {
		case c.Sort == RefSort && (strings.HasSuffix(c.Suffix, ".r") || strings.HasSuffix(c.Suffix, ".p")):
			if isInitialHeapRead(t) && e.alloc0 != nil && os.Getenv("GOVC_NOH0") == "" {
				// a reference read from the heap as it was at entry predates every allocation of the call
				facts = append(facts, e.X.Ult(t, e.alloc0))
				e.X.OldRef[t.ID()] = true
			} else {
				facts = append(facts, e.X.Ult(t, st.Alloc))
			}
		case c.Sort == TagSort && strings.HasSuffix(c.Suffix, ".t") && i+1 < len(cs) && strings.HasSuffix(cs[i+1].Suffix, ".v"):
			// a nil interface has no payload
			facts = append(facts, e.X.Implies(e.X.Eq(t, e.X.Const(0, 32)), e.X.Eq(v.C[i+1], e.X.Const(0, 64))))
		}
		if strings.HasSuffix(c.Suffix, ".l") && i >= 2 && strings.HasSuffix(cs[i-1].Suffix, ".o") {
			off, ln := v.C[i-1], t
			lim := e.X.Const(1<<40, 64)
			facts = append(facts, e.X.Ule(ln, lim), e.X.Ule(off, lim))
			if i+1 < len(cs) && strings.HasSuffix(cs[i+1].Suffix, ".c") {
				cp := v.C[i+1]
				facts = append(facts, e.X.Ule(ln, cp), e.X.Ule(cp, lim))
				// a nil slice has no capacity
				facts = append(facts, e.X.Implies(e.X.Eq(v.C[i-2], e.X.Const(0, 32)), e.X.Eq(cp, e.X.Const(0, 64))))
			} else {
				facts = append(facts, e.X.Implies(e.X.Eq(v.C[i-2], e.X.Const(0, 32)), e.X.Eq(ln, e.X.Const(0, 64))))
			}
		}
	}
	for _, f := range facts {
		e.assume(f)
	}
}

func (e *Engine) opaqueFunc(v Val) Val {
	id, ok := e.funcIDs[v.Clo.Fn]
	if !ok {
		id = len(e.funcIDs) + 1
		e.funcIDs[v.Clo.Fn] = id
		e.funcByID[id] = v.Clo
	}
	if len(v.Clo.Bindings) > 0 {
		bail("closure with captured variables stored in the heap")
	}
	return Val{T: v.T, C: []*smt.Term{e.X.Const(uint64(id), 32)}}
}

// isInitialHeapRead: t is select(H0, r) or select(select(H0, r), i) for an entry-state heap variable H0.
func isInitialHeapRead(t *smt.Term) bool {
	for t.Op == "select" {
		t = t.Args[0]
	}
	return t.Op == "var" && strings.HasPrefix(t.Name, "H0")
}
