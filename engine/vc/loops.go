package vc

import (
	"sort"
	"fmt"
	"go/types"
	"strings"

	"govc/contracts"
	"govc/smt"

	"golang.org/x/tools/go/ssa"
)

// resolveLocal finds the SSA value that holds source variable `name` at loop header h.
// override supplies values for the header's φ-nodes (entry values or back-edge values).
func (e *Engine) resolveLocal(f *frame, h *ssa.BasicBlock, name string, wantType string, override map[*ssa.Phi]Val) (Val, bool) {
	for _, ins := range h.Instrs {
		phi, ok := ins.(*ssa.Phi)
		if !ok {
			break
		}
		if phi.Comment == name {
			if v, ok := override[phi]; ok {
				return v, true
			}
			return f.vals[phi], true
		}
	}
	for _, p := range f.fn.Params {
		if p.Name() == name {
			return f.vals[p], true
		}
	}
	for b := h.Idom(); b != nil; b = b.Idom() {
		for i := len(b.Instrs) - 1; i >= 0; i-- {
			switch x := b.Instrs[i].(type) {
			case *ssa.Phi:
				if x.Comment == name {
					if v, ok := f.vals[x]; ok {
						return v, true
					}
				}
			case *ssa.DebugRef:
				if id, ok := x.Expr.(interface{ String() string }); ok && id.String() == name {
					v := e.operand(f, x.X)
					if x.IsAddr {
						if strings.HasPrefix(wantType, "*") {
							if _, isPtr := pointee(v.T).Underlying().(*types.Pointer); !isPtr {
								return v, true // the variable's address (see the Alloc case)
							}
						}
						return e.load(f.st, v), true
					}
					return v, true
				}
			case *ssa.Alloc:
				if x.Comment == name {
					// a local declared with a pointer type where the variable itself is a struct or
					// array names the variable's address (methods with pointer receivers are called on it)
					if strings.HasPrefix(wantType, "*") {
						if _, isPtr := pointee(x.Type()).Underlying().(*types.Pointer); !isPtr {
							return f.vals[x], true
						}
					}
					return e.load(f.st, f.vals[x]), true
				}
			}
		}
	}
	return Val{}, false
}

func (e *Engine) loopArgs(f *frame, lc *loopCtx, override map[*ssa.Phi]Val) []Val {
	var args []Val
	for i := range f.fn.Params {
		args = append(args, f.args[i])
	}
	for _, l := range lc.spec.Locals {
		v, ok := e.resolveLocal(f, lc.header, l.Name, l.Type, override)
		if !ok {
			bail("loop %d of %s: no variable %q at the loop header (contract drift)", lc.ordinal, f.fn.Name(), l.Name)
		}
		args = append(args, v)
	}
	return args
}

// evalInv evaluates all invariant clauses; returns one term per clause.
func (e *Engine) evalInv(f *frame, lc *loopCtx, override map[*ssa.Phi]Val, st *State) []*smt.Term {
	args := e.loopArgs(f, lc, override)
	var out []*smt.Term
	for _, cl := range lc.spec.Invs {
		as := append([]Val{}, args...)
		for _, of := range cl.OldFn {
			as = append(as, f.olds[of])
		}
		for _, pf := range cl.PreFn {
			as = append(as, lc.pres[pf])
		}
		v, _ := e.evalSpec(f.fn.Pkg, cl.Func, as, st)
		out = append(out, v.C[0])
	}
	return out
}

func (e *Engine) enterLoop(f *frame, lc *loopCtx, st *State) {
	X := e.X
	h := lc.header
	if lc.spec == nil {
		if e.specDepth > 0 || f.fc == nil {
			bail("loop in %s executed without invariant (inlined or spec function)", f.fn.Name())
		}
		e.failNow("loop-spec", fmt.Sprintf("loop %d of %s has no invariant", lc.ordinal, f.fn.Name()), h.Instrs[0].Pos())
		lc.spec = &contracts.Loop{Ordinal: lc.ordinal}
	}
	// entry values of φ-nodes are already in f.vals
	entry := map[*ssa.Phi]Val{}
	for _, ins := range h.Instrs {
		if phi, ok := ins.(*ssa.Phi); ok {
			entry[phi] = f.vals[phi]
		} else {
			break
		}
	}
	// old-expressions of invariants are evaluated in the function's entry state
	if f.olds == nil {
		f.olds = map[string]Val{}
	}
	for _, cl := range lc.spec.Invs {
		for _, of := range cl.OldFn {
			if _, ok := f.olds[of]; !ok {
				if pv, ok := e.preOlds[of]; ok && f.top {
					f.olds[of] = pv
					continue
				}
				v, _ := e.evalSpec(f.fn.Pkg, of, f.args[:len(f.fn.Params)], f.entrySt)
				f.olds[of] = v
			}
		}
	}
	// pre(...) expressions at loop entry
	lc.pres = map[string]Val{}
	eargs := e.loopArgs(f, lc, entry)
	for _, cl := range lc.spec.Invs {
		for _, pf := range cl.PreFn {
			v, st2 := e.evalSpec(f.fn.Pkg, pf, eargs, f.st)
			f.st = st2
			lc.pres[pf] = v
		}
	}
	for i, t := range e.evalInv(f, lc, entry, f.st) {
		e.oblige("inv-entry", fmt.Sprintf("L%d.%d:%s", lc.ordinal, i, trunc(lc.spec.Invs[i].Text, 50)), t, h.Instrs[0].Pos())
	}
	// havoc: φ-nodes, written heaps, written cells, allocation counter
	for phi := range entry {
		v := e.freshVal(fmt.Sprintf("L%d_%s", lc.ordinal, phi.Comment), phi.Type())
		old := entry[phi]
		v.Cell, v.Clo, v.Root, v.RootT, v.Path = old.Cell, old.Clo, old.Root, old.RootT, old.Path
		if v.Cell != nil || v.Clo != nil {
			bail("loop-carried static pointer/closure")
		}
		f.vals[phi] = v
		e.assumeWellTyped(f.st, v)
	}
	e.havocLoopMemory(f, lc)
	na := X.Fresh("alloc", RefSort)
	X.FreshBase[na.ID()] = true
	X.SetAllocLB(na, f.st.Alloc)
	e.assume(X.And(X.Ule(f.st.Alloc, na), X.Ule(na, X.Const(0x07ffffff, 32)))) // stated assumption: fewer than 2^27 allocations
	f.st.Alloc = na
	for phi := range entry {
		e.assumeWellTyped(f.st, f.vals[phi])
	}
	for _, t := range e.evalInv(f, lc, nil, f.st) {
		e.assume(t)
	}
	if lc.spec.Dec != nil {
		v, _ := e.evalSpec(f.fn.Pkg, lc.spec.Dec.Func, e.loopArgs(f, lc, nil), f.st)
		lc.dec0 = v.C[0]
	}
}

// havocLoopMemory forgets the contents of everything the loop body may write.
func (e *Engine) havocLoopMemory(f *frame, lc *loopCtx) {
	X := e.X
	type target struct {
		base ssa.Value
		key  string // heap key prefix
	}
	wholeHeaps := map[string]bool{}
	var locs []frameLoc
	cells := map[*Cell]bool{}
	var iterCells []*mapIter
	addStore := func(addr ssa.Value, t types.Type) {
		base, ok := e.traceBase(addr)
		if ok {
			if _, isAlloc := base.(*ssa.Alloc); isAlloc && lc.blocks[base.(*ssa.Alloc).Block()] {
				return // object allocated inside the loop body: fresh each iteration
			}
		}
		if ok && !e.definedIn(base, lc) {
			bv, have := f.vals[base]
			if g, isG := base.(*ssa.Global); isG {
				bv, have = e.globalPtr(g), true
			}
			if have {
				if bv.Cell != nil {
					cells[bv.Cell] = true
					return
				}
				switch u := bv.T.Underlying().(type) {
				case *types.Pointer:
					if at, ok := u.Elem().Underlying().(*types.Array); ok {
						locs = append(locs, frameLoc{kind: "deref", ref: bv.ref(), keyPfx: "arr:" + typeKey(at.Elem()) + "/"})
					} else {
						locs = append(locs, frameLoc{kind: "deref", ref: bv.ref(), keyPfx: "obj:" + typeKey(u.Elem()) + "/"})
					}
					return
				case *types.Slice:
					locs = append(locs, frameLoc{kind: "deref", ref: bv.ref(), keyPfx: "arr:" + typeKey(u.Elem()) + "/"})
					return
				}
			}
		}
		// unknown target: forget the whole heap family of the stored type
		for _, k := range e.keysOfStore(addr, t) {
			wholeHeaps[k] = true
		}
	}
	for b := range lc.blocks {
		for _, ins := range b.Instrs {
			switch x := ins.(type) {
			case *ssa.Store:
				addStore(x.Addr, x.Val.Type())
			case *ssa.MapUpdate:
				wholeHeaps["mapP:"] = true
				wholeHeaps["mapV:"] = true
				wholeHeaps["mapL:"] = true
			case *ssa.Next:
				if it := e.iters[x.Iter]; it != nil {
					iterCells = append(iterCells, it)
				}
			case *ssa.Call:
				cc := x.Common()
				if bi, ok := cc.Value.(*ssa.Builtin); ok {
					switch bi.Name() {
					case "copy":
						addStore(cc.Args[0], nil)
					case "append":
						addStore(cc.Args[0], nil)
					case "delete":
						wholeHeaps["map:"] = true
					}
					continue
				}
				callee := cc.StaticCallee()
				if callee == nil && cc.IsInvoke() {
					// interface call: every implementation in the repository must be read-only
					pure := true
					found := false
					if iface, ok := cc.Value.Type().Underlying().(*types.Interface); ok {
						for _, t := range e.concreteTypes() {
							if !types.Implements(t, iface) {
								continue
							}
							sel := e.Prog.MethodSets.MethodSet(t).Lookup(cc.Method.Pkg(), cc.Method.Name())
							if sel == nil {
								continue
							}
							fn := e.Prog.MethodValue(sel)
							if fn == nil {
								continue
							}
							found = true
							if fc, ok := e.Contracts[fn]; ok {
								for _, ml := range fc.C.Modifies {
									if ml.Kind != "nothing" {
										pure = false
									}
								}
								continue
							}
							if e.writesMemory(fn, map[*ssa.Function]bool{}) {
								pure = false
							}
						}
					}
					if !found || !pure {
						wholeHeaps["*"] = true
					}
					continue
				}
				if callee == nil {
					wholeHeaps["*"] = true
					continue
				}
				if fc, ok := e.Contracts[callee]; ok {
					for _, ml := range fc.C.Modifies {
						if ml.Kind != "nothing" {
							// conservatively forget the heap families named by the callee's frame
							wholeHeaps["?"+ml.Text] = true
							wholeHeaps["*"] = true
						}
					}
					continue
				}
				if e.isSpecFunc(callee) {
					continue
				}
				if e.Transparent[callee] || !e.inRepo(callee) {
					if e.writesMemory(callee, map[*ssa.Function]bool{}) {
						wholeHeaps["*"] = true
					}
					continue
				}
				wholeHeaps["*"] = true
			}
		}
	}
	for _, it := range iterCells {
		f.st.Cells[it.cell] = Val{C: []*smt.Term{e.X.Fresh("visited", smt.Array(it.mi.ksort, smt.Bool))}}
		lc.mapLoop = true
	}
	e.havocLocs(f.st, locs)
	for c := range cells {
		if c.Glob != nil {
			continue
		}
		f.st.Cells[c] = e.freshVal("cell_"+c.Name, c.T)
	}
	if wholeHeaps["*"] {
		for _, k := range sortedHeapKeys(e.heapSorts) {
			f.st.Heaps[k] = e.havocOld(f.st, k)
		}
		return
	}
	for k := range wholeHeaps {
		if strings.HasPrefix(k, "?") {
			continue
		}
		for _, hk := range sortedHeapKeys(e.heapSorts) {
			if strings.HasPrefix(hk, k) {
				f.st.Heaps[hk] = e.havocOld(f.st, hk)
			}
		}
	}
	_ = X
}

// havocOld returns a heap that agrees with the current one on nothing we know of,
// except objects not yet allocated stay irrelevant. (Objects allocated before the loop may change.)
func (e *Engine) havocOld(st *State, key string) *smt.Term {
	leaf := e.heapSorts[key]
	h := e.X.Fresh("HV|"+key, e.heapSortOf(key, leaf))
	// ghost snapshots are written by nothing: they keep their contents
	for _, sn := range e.snaps {
		if sn.key == key {
			h = e.X.Store(h, sn.ref, sn.val)
		}
	}
	return h
}

type snapRec struct {
	key string
	ref *smt.Term
	val *smt.Term
}

func sortedHeapKeys(m map[string]*smt.Sort) []string {
	var ks []string
	for k := range m {
		ks = append(ks, k)
	}
	sort.Strings(ks)
	return ks
}

func (e *Engine) keysOfStore(addr ssa.Value, t types.Type) []string {
	pt, ok := addr.Type().Underlying().(*types.Pointer)
	if !ok {
		if s, ok := addr.Type().Underlying().(*types.Slice); ok {
			return []string{"arr:" + typeKey(s.Elem()) + "/"}
		}
		return []string{"*"}
	}
	switch a := addr.(type) {
	case *ssa.IndexAddr:
		switch u := a.X.Type().Underlying().(type) {
		case *types.Slice:
			return []string{"arr:" + typeKey(u.Elem()) + "/"}
		case *types.Pointer:
			return []string{"arr:" + typeKey(u.Elem().Underlying().(*types.Array).Elem()) + "/"}
		}
	case *ssa.FieldAddr:
		st := derefStruct(a.X.Type())
		_ = st
		return []string{"obj:" + typeKey(pointee(a.X.Type())) + "/"}
	}
	if at, ok := pt.Elem().Underlying().(*types.Array); ok {
		return []string{"arr:" + typeKey(at.Elem()) + "/"}
	}
	return []string{"obj:" + typeKey(pt.Elem()) + "/"}
}

// traceBase follows address computations back to the pointer/slice they start from.
func (e *Engine) traceBase(v ssa.Value) (ssa.Value, bool) {
	for {
		switch x := v.(type) {
		case *ssa.IndexAddr:
			v = x.X
		case *ssa.FieldAddr:
			v = x.X
		case *ssa.Slice:
			v = x.X
		case *ssa.ChangeType:
			v = x.X
		case *ssa.Convert:
			if _, ok := x.Type().Underlying().(*types.Pointer); ok {
				v = x.X
			} else {
				return v, true
			}
		case *ssa.Parameter, *ssa.Alloc, *ssa.Global, *ssa.FreeVar, *ssa.Phi, *ssa.Call, *ssa.UnOp, *ssa.MakeSlice, *ssa.Extract:
			return v, true
		default:
			return nil, false
		}
	}
}

func (e *Engine) definedIn(v ssa.Value, lc *loopCtx) bool {
	if ins, ok := v.(ssa.Instruction); ok {
		return lc.blocks[ins.Block()]
	}
	return false
}

// writesMemory: does the (inlined) function contain any store to non-local memory?
func (e *Engine) writesMemory(fn *ssa.Function, seen map[*ssa.Function]bool) bool {
	if seen[fn] {
		return false
	}
	seen[fn] = true
	for _, b := range fn.Blocks {
		for _, ins := range b.Instrs {
			switch x := ins.(type) {
			case *ssa.Store:
				if base, ok := e.traceBase(x.Addr); ok {
					if a, isAlloc := base.(*ssa.Alloc); isAlloc && a.Parent() == fn {
						continue
					}
				}
				return true
			case *ssa.MapUpdate:
				return true
			case *ssa.Call:
				cc := x.Common()
				if bi, ok := cc.Value.(*ssa.Builtin); ok {
					if bi.Name() == "copy" || bi.Name() == "append" || bi.Name() == "delete" {
						return true
					}
					continue
				}
				callee := cc.StaticCallee()
				if callee == nil {
					return true
				}
				if e.isSpecFunc(callee) {
					continue
				}
				if e.writesMemory(callee, seen) {
					return true
				}
			}
		}
	}
	return false
}

// backEdge: the invariant is re-established and the variant decreases.
func (e *Engine) backEdge(f *frame, from, h *ssa.BasicBlock) {
	X := e.X
	lc := f.loops[h]
	if lc == nil || lc.spec == nil {
		return
	}
	c := e.X.And(f.inPC[from], e.edgeCond(f, from, h))
	if c.IsFalse() {
		return
	}
	saved := e.pc
	e.pc = e.X.And(f.base, c)
	defer func() { e.pc = saved }()
	idx := predIndex(h, from)
	next := map[*ssa.Phi]Val{}
	for _, ins := range h.Instrs {
		phi, ok := ins.(*ssa.Phi)
		if !ok {
			break
		}
		v := e.operand(f, phi.Edges[idx])
		v.T = phi.Type()
		next[phi] = v
	}
	st := f.outSt[from]
	if st == nil {
		st = f.st
	}
	var split *CaseSplit
	for _, sp := range lc.spec.Splits {
		v, ok := e.resolveLocal(f, h, sp.Name, "", nil)
		if !ok || len(v.C) != 1 || v.C[0].Op != "var" {
			bail("loop %d of %s: split variable %q is not a loop-carried integer", lc.ordinal, f.fn.Name(), sp.Name)
		}
		split = &CaseSplit{Var: v.C[0], Lo: sp.Lo, Hi: sp.Hi}
	}
	for i, t := range e.evalInv(f, lc, next, st) {
		e.oblige("inv-step", fmt.Sprintf("L%d.%d:%s", lc.ordinal, i, trunc(lc.spec.Invs[i].Text, 50)), t, h.Instrs[0].Pos())
		if split != nil && e.specDepth == 0 {
			e.Obls[len(e.Obls)-1].Split = split
		}
	}
	if lc.spec.Dec != nil {
		saveSt := f.st
		f.st = st
		v, _ := e.evalSpec(f.fn.Pkg, lc.spec.Dec.Func, e.loopArgs(f, lc, next), st)
		f.st = saveSt
		e.oblige("decreases", fmt.Sprintf("L%d:%s", lc.ordinal, trunc(lc.spec.Dec.Text, 50)),
			X.And(X.Sle(X.Const(0, 64), lc.dec0), X.Slt(v.C[0], lc.dec0)), h.Instrs[0].Pos())
	} else if e.specDepth == 0 && !lc.mapLoop {
		// (iteration over a finite map terminates: every step produces a key not produced before)
		e.failNow("decreases", fmt.Sprintf("L%d: no variant given", lc.ordinal), h.Instrs[0].Pos())
	}
}
