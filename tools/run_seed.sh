#!/bin/bash
# run_seed.sh <seed-id> [prop] : apply the seeded change to /repo, run the property's quick check, undo.
id=$1; prop=${2:-${id%%_*}}
if [ -n "$(git -C /repo status --porcelain)" ]; then echo "REFUSING: /repo dirty"; exit 4; fi
git -C /repo apply /verif/seeded/$id/patch.diff 2>/dev/null || (cd /repo && patch -p1 -F3 -s < /verif/seeded/$id/patch.diff && find . -name "*.orig" -delete) || { echo "APPLY FAILED $id"; git -C /repo checkout -- .; find /repo -name "*.orig" -o -name "*.rej" | xargs -r rm -f; exit 3; }
cd /verif && timeout ${SEED_TIMEOUT:-900} ./bin/govc check $prop 2>&1 | grep -v abstraction | cut -c1-260 | head -${SEED_LINES:-8}
echo "exit=${PIPESTATUS[0]}"
git -C /repo checkout -- .
# evidence was rewritten by a run on a modified tree: restore the committed one
git -C /verif checkout -- evidence/$prop.json 2>/dev/null
