#!/usr/bin/env python3
"""Regenerates /verif/MANIFEST.json from tools/claimed.json and tools/not_applicable.json."""
import json, subprocess, os

ENV = "GOFLAGS=-mod=mod GOPROXY=off GOSUMDB=off GOTOOLCHAIN=local"
BASELINE_OFF = ("cd /repo && GOFLAGS=-mod=mod GOPROXY=off GOSUMDB=off GOTOOLCHAIN=local "
                "go test -json -vet=off -count=1 -timeout 25m ./...")
TECH = ("contract-based deductive verification: weakest-precondition VCs generated from go/ssa of the "
        "real code against //@ contracts, discharged by z3/cvc5")


def main():
    props = [json.loads(l) for l in open("/verif/properties.jsonl")]
    na_reasons = json.load(open("/verif/tools/not_applicable.json"))
    claimed = json.load(open("/verif/tools/claimed.json"))
    checks, na = [], []
    for p in props:
        pid = p["id"]
        if pid in claimed:
            c = claimed[pid]
            checks.append({
                "property_id": pid,
                "quick_cmd": f"bin/govc check {pid} --tier quick",
                "thorough_cmd": f"bin/govc check {pid} --tier thorough",
                "evidence_file": f"/verif/evidence/{pid}.json",
                "replay_cmd_template": "bin/govc replay {path}",
                "engine": "govc",
                "level_claimed": {"category": "proof", "text": c["text"], "design_ref": c["ref"]},
                "level_note": c["note"],
                "technique": TECH,
            })
        else:
            na.append({"property_id": pid, "reason": na_reasons.get(
                pid, "contracts for this property are not yet under the verifier in this revision "
                     "(DESIGN.md section 11); nothing is claimed for it")})
    commits = subprocess.run(["git", "-C", "/repo", "log", "--format=%H", "--grep=^verif:"],
                             capture_output=True, text=True).stdout.split()
    m = {
        "version": 1,
        "setup_cmd": f"cd /verif/engine && {ENV} go build -o /verif/bin/govc ./cmd/govc",
        "hooks": {
            "guard": "verif",
            "enable": "go build/test/load with -tags=verif; contracts live in <pkg>/zz_verif_contracts.go files "
                      "that start with //go:build verif (no library line is changed)",
            "baseline_off_cmd": BASELINE_OFF,
            "source_commits": commits,
            "add_only": True,
        },
        "engines": [{"name": "govc", "path": "/verif/engine", "serves_properties": sorted(claimed.keys()),
                     "kind_free_text": "VC generator over go/ssa (x/tools v0.29.0) + contract overlay generator + "
                                       "SMT back ends (z3 4.8.12, z3 5.1.0, cvc5 1.0) + replay harness"}],
        "checks": checks,
        "not_applicable": na,
        "notes": "Contracts are //@ comments in /repo/<pkg>/zz_verif_contracts.go (build tag verif). Every check "
                 "reloads /repo's working tree. Exit 2 + CHECK-BROKEN means the machinery failed its own vacuity "
                 "self-checks.",
    }
    json.dump(m, open("/verif/MANIFEST.json", "w"), indent=1)
    print("claimed:", sorted(claimed.keys()))


main()
