#!/bin/bash
# usage: mutant.sh <prop> <file> <sed-expr>   — apply a mutation to /repo, run the check, undo
prop=$1; file=$2; expr=$3
if [ -n "$(git -C /repo status --porcelain)" ]; then echo "REFUSING: /repo has uncommitted changes (commit contract files first)"; exit 4; fi
cd /repo && sed -i "$expr" "$file" && git diff --stat | head -3
if git diff --quiet; then echo "MUTATION DID NOT APPLY"; exit 3; fi
export GOFLAGS=-mod=mod GOPROXY=off GOSUMDB=off GOTOOLCHAIN=local
(go build ./... && go test -count=1 ./... 2>&1 | grep -v "^ok\|no test files" | head -5)
cd /verif && ./bin/govc check $prop | cut -c1-260 | head -12; echo "exit=${PIPESTATUS[0]}"
cd /repo && git checkout -- .
