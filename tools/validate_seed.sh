#!/bin/bash
# validate_seed.sh <dir-with-patch.diff,demo,meta> : confirms (a) suite passes with patch, (b) demo fails with patch, (c) demo passes without.
# Uses a scratch worktree outside /repo and /verif, removed afterwards.
src=$1; id=$(basename $src)
export GOFLAGS=-mod=mod GOPROXY=off GOSUMDB=off GOTOOLCHAIN=local
wt=$(mktemp -d /tmp/seedval.XXXXXX); rmdir $wt
git -C /repo worktree add -q --detach $wt fca6102 || exit 9
demo=$(cat $src/demo_path.txt | tr -d '\n ')
res="id=$id"
cd $wt
# (c) demo on unchanged
cp $src/zz_seed_demo_test.go $wt/$demo
if go test -count=1 ./$(dirname $demo)/ >/tmp/seedval_$id.c.log 2>&1; then res="$res demo_unchanged=pass"; else res="$res demo_unchanged=FAIL"; fi
rm -f $wt/$demo
# (a) suite with patch
if ! git apply $src/patch.diff 2>/tmp/seedval_$id.apply.log; then res="$res apply=FAIL"; echo $res; cd /; git -C /repo worktree remove --force $wt; exit 1; fi
if go build ./... >/tmp/seedval_$id.a.log 2>&1 && go test -count=1 ./... >>/tmp/seedval_$id.a.log 2>&1; then res="$res suite_patched=pass"; else res="$res suite_patched=FAIL"; fi
# (b) demo with patch
cp $src/zz_seed_demo_test.go $wt/$demo
if go test -count=1 ./$(dirname $demo)/ >/tmp/seedval_$id.b.log 2>&1; then res="$res demo_patched=PASS(bad)"; else res="$res demo_patched=fail(good)"; fi
echo $res
cd /; git -C /repo worktree remove --force $wt
rm -f /tmp/seedval_$id.*.log
