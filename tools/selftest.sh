#!/bin/bash
# selftest.sh: apply every seeded change (re-based variant where a repair changed its context), run the
# property's quick check, undo, and compare with the expected outcome in tools/seed_expect.txt.
# Needs a clean /repo. Output: one line per seed; exit 1 if an outcome differs from the expectation.
if [ -n "$(git -C /repo status --porcelain)" ]; then echo "REFUSING: /repo dirty"; exit 4; fi
cd /verif
rc=0
while read -r id prop expect; do
  [ -z "$id" ] && continue
  case "$id" in \#*) continue;; esac
  patch=$(ls seeded/$id/patch_after_fix_*.diff 2>/dev/null | head -1)
  [ -z "$patch" ] && patch=seeded/$id/patch.diff
  if ! git -C /repo apply "/verif/$patch" 2>/dev/null; then
    (cd /repo && patch -p1 -F3 -s < "/verif/$patch" >/dev/null 2>&1) || { echo "$id $prop APPLY-FAILED (expected $expect)"; git -C /repo checkout -- .; find /repo -name "*.orig" -o -name "*.rej" | xargs -r rm -f; rc=1; continue; }
    find /repo -name "*.orig" -delete
  fi
  out=$(timeout ${SEED_TIMEOUT:-1500} ./bin/govc check $prop 2>&1)
  if echo "$out" | grep -q "^VIOLATION"; then got=caught; elif echo "$out" | grep -q "^OK property"; then got=missed; else got=broken; fi
  git -C /repo checkout -- .
  git -C /verif checkout -- evidence/$prop.json 2>/dev/null
  mark=ok; [ "$got" != "$expect" ] && { mark=DIFFERS; rc=1; }
  echo "$id $prop $got (expected $expect) $mark"
done < tools/seed_expect.txt
exit $rc
