#!/bin/bash
# Runs every claimed quick check on the clean tree and rewrites evidence/*.json. Refuses on a dirty /repo.
if [ -n "$(git -C /repo status --porcelain)" ]; then echo "REFUSING: /repo dirty"; exit 4; fi
cd /verif
rc=0
for p in $(python3 -c "import json;print(' '.join(c['property_id'] for c in json.load(open('/verif/MANIFEST.json'))['checks']))"); do
  s=$(date +%s); out=$(./bin/govc check $p 2>&1 | grep -v abstraction | tail -3); e=$?
  echo "$p: $(echo "$out" | tail -1 | cut -c1-160) [$(( $(date +%s)-s ))s]"
  echo "$out" | grep -q "^VIOLATION\|CHECK-BROKEN" && rc=1
done
exit $rc
