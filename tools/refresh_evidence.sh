#!/bin/bash
# Runs every claimed quick check on the clean tree and rewrites evidence/*.json. Refuses on a dirty /repo.
if [ -n "$(git -C /repo status --porcelain)" ]; then echo "REFUSING: /repo dirty"; exit 4; fi
cd /verif
rc=0
for p in $(python3 -c "import json;print(' '.join(c['property_id'] for c in json.load(open('/verif/MANIFEST.json'))['checks']))"); do
  s=$(date +%s); ./bin/govc check $p > /tmp/refresh_$p.out 2>&1; e=$?
  echo "$p: exit=$e $(grep -v abstraction /tmp/refresh_$p.out | tail -1 | cut -c1-140) [$(( $(date +%s)-s ))s]"
  grep "^VIOLATION\|CHECK-BROKEN" /tmp/refresh_$p.out | head -3
  [ $e -ne 0 ] && rc=1
  rm -f /tmp/refresh_$p.out
done
exit $rc
